#!/bin/bash
# run.sh <Cxx> quick|thorough            run one check against /repo's working tree
# run.sh <Cxx> --replay <file>           replay one violation artefact
# Builds an instrumented scratch copy of /repo (never touches /repo), runs the
# model-checking driver, removes the scratch copy.
set -u
PROP="${1:?property id}"; shift
export VERIF_ROOT="$(cd "$(dirname "$0")" && pwd)"
export REPO="${VERIF_REPO:-/repo}"
export GOFLAGS=-mod=mod GOPROXY=off GOSUMDB=off GOTOOLCHAIN=local
export GOCACHE="${GOCACHE:-$HOME/.cache/go-build}"
BASE=/dev/shm; [ -d "$BASE" ] && [ -w "$BASE" ] || BASE=/var/tmp
SCR="$BASE/vf-$PROP-$$"
cleanup() { rm -rf "$SCR"; }
trap cleanup EXIT INT TERM
mkdir -p "$SCR/src" || exit 2
# copy the working tree (tracked + untracked, minus .git and tests)
(cd "$REPO" && tar --exclude=.git --exclude='*_test.go' -cf - .) | (cd "$SCR/src" && tar -xf -) || exit 2
VINSTR="$VERIF_ROOT/bin/vinstr"
if [ ! -x "$VINSTR" ] || [ "$VERIF_ROOT/tools/vinstr/main.go" -nt "$VINSTR" ]; then (cd "$VERIF_ROOT/tools/vinstr" && GOFLAGS= go build -o "$VINSTR" .) || exit 2; fi
# harness + bridge files
mkdir -p "$SCR/src/verif"
cp -r "$VERIF_ROOT/mc/." "$SCR/src/verif/" || exit 2
if [ -d "$SCR/src/verif/bridge" ]; then
  (cd "$SCR/src/verif/bridge" && find . -name '*.go' | while read -r f; do
     mkdir -p "$SCR/src/$(dirname "$f")"; cp "$f" "$SCR/src/$f"; done)
  rm -rf "$SCR/src/verif/bridge"
fi
"$VINSTR" "$SCR/src" 2>"$SCR/vinstr.log" || { cat "$SCR/vinstr.log"; echo "HARNESS-ERROR: vinstr failed"; exit 2; }
BIN="$SCR/dtnmc"
(cd "$SCR/src" && go build ${VERIF_RACE:+-race} -trimpath -o "$BIN" ./verif/cmd/dtnmc) >"$SCR/build.log" 2>&1 || {
  cat "$SCR/build.log"; echo "HARNESS-ERROR: build of instrumented tree failed (not a verdict)"; exit 2; }
export VERIF_SCRATCH="$SCR/work"; mkdir -p "$VERIF_SCRATCH"
export VERIF_BIN="$BIN" VERIF_SRC="$SCR/src"
if [ -n "${VERIF_KEEP:-}" ]; then cp "$BIN" /dev/shm/dtnmc-keep; fi
if [ "$PROP" = BENCH ]; then "$BIN" bench "$@"; exit $?; fi
if [ "$PROP" = FREERUN ]; then "$BIN" freerun "$@"; exit $?; fi
"$BIN" "$PROP" "$@"
rc=$?
exit $rc
