// Package par runs independent cases on all cores.
package par

import (
	"runtime"
	"sync"
	"sync/atomic"
	"time"
)

// Internal deadline of a check run: once it has passed, For (and the worker pool) stop handing out further
// cases; the run reports what it covered with exhaustive=false and never turns the deadline into a verdict.
var (
	deadline    time.Time
	deadlineHit int32
)

// SetDeadline arms the deadline (zero time = none).
func SetDeadline(t time.Time) { deadline = t }

// Expired reports (and remembers) that the deadline has passed.
func Expired() bool {
	if deadline.IsZero() || time.Now().Before(deadline) {
		return false
	}
	atomic.StoreInt32(&deadlineHit, 1)
	return true
}

// DeadlineHit reports whether any dispatcher stopped early because of the deadline.
func DeadlineHit() bool { return atomic.LoadInt32(&deadlineHit) != 0 }

// For calls f(i) for i in [0,n) from GOMAXPROCS goroutines.
func For(n int, f func(i int)) {
	w := runtime.GOMAXPROCS(0)
	if w > n {
		w = n
	}
	if w < 1 {
		w = 1
	}
	var next int64 = -1
	var wg sync.WaitGroup
	for k := 0; k < w; k++ {
		wg.Add(1)
		go func() {
			defer wg.Done()
			for {
				i := int(atomic.AddInt64(&next, 1))
				if i >= n || Expired() {
					return
				}
				f(i)
			}
		}()
	}
	wg.Wait()
}
