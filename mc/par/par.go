// Package par runs independent cases on all cores.
package par

import (
	"runtime"
	"sync"
	"sync/atomic"
)

// For calls f(i) for i in [0,n) from GOMAXPROCS goroutines.
func For(n int, f func(i int)) {
	w := runtime.GOMAXPROCS(0)
	if w > n {
		w = n
	}
	if w < 1 {
		w = 1
	}
	var next int64 = -1
	var wg sync.WaitGroup
	for k := 0; k < w; k++ {
		wg.Add(1)
		go func() {
			defer wg.Done()
			for {
				i := int(atomic.AddInt64(&next, 1))
				if i >= n {
					return
				}
				f(i)
			}
		}()
	}
	wg.Wait()
}
