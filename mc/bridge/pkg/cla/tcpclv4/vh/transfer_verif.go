package vh

import (
	"bytes"
	"fmt"
	"runtime"
	"sync"
	"sync/atomic"
	"time"

	"github.com/dtn7/dtn7-go/pkg/bpv7"
	"github.com/dtn7/dtn7-go/pkg/cla/tcpclv4/internal/msgs"
	"github.com/dtn7/dtn7-go/pkg/cla/tcpclv4/internal/utils"
	"github.com/dtn7/dtn7-go/verif/vtime"
)

// Seg describes one XFER_SEGMENT seen on the wire.
type Seg struct {
	Tid   uint64
	Start bool
	End   bool
	Len   int
}

// TransferResult is what one scenario observed.
type TransferResult struct {
	Segs      []Seg
	Data      map[uint64][]byte // concatenated segment data per transfer id
	SendErr   []string          // per Send call ("" = nil)
	Delivered [][]byte          // encodings of bundles handed up by the receiver(s), in order
	RecvErrs  []string
	Hang      string
	// the follow-up transfer of Faulty
	Next     []Seg
	NextData []byte
	NextErr  string
	NextRan  bool
}

const stepWatchdog = 10 * time.Second

func wd(f func()) bool {
	done := make(chan struct{})
	go func() { f(); close(done) }()
	select {
	case <-done:
		return true
	case <-time.After(stepWatchdog):
		return false
	}
}

func ser(b *bpv7.Bundle) []byte {
	var buf bytes.Buffer
	_ = b.WriteBundle(&buf)
	return buf.Bytes()
}

// peer is a real TransferManager plus the collector of what it hands up.
type peer struct {
	in   chan msgs.Message
	out  chan msgs.Message
	tm   *utils.TransferManager
	mu   sync.Mutex
	got  [][]byte
	errs []string
	done chan struct{} // closed when the marker error was seen
}

func newPeer(mtu uint64) *peer {
	p := &peer{in: make(chan msgs.Message), out: make(chan msgs.Message), done: make(chan struct{})}
	p.tm = utils.NewTransferManager(p.in, p.out, mtu)
	bundles, errs := p.tm.Exchange()
	go func() {
		for {
			select {
			case b := <-bundles:
				p.mu.Lock()
				p.got = append(p.got, ser(&b))
				p.mu.Unlock()
			case e := <-errs:
				p.mu.Lock()
				marker := e != nil && bytes.Contains([]byte(e.Error()), []byte("KeepaliveMessage"))
				if !marker {
					p.errs = append(p.errs, fmt.Sprint(e))
				}
				p.mu.Unlock()
				close(p.done)
				return
			}
		}
	}()
	return p
}

// quiesce pushes an unexpected message behind everything delivered so far; the
// manager answers with an error after having processed all earlier messages.
func (p *peer) quiesce() bool {
	return wd(func() {
		select {
		case p.in <- msgs.NewKeepaliveMessage():
			<-p.done
		case <-p.done:
		}
	})
}

// OneWay sends one bundle from a sender manager with segment size m to a real
// receiving manager through a faithful in-order link and records everything.
func OneWay(b bpv7.Bundle, m uint64) (res TransferResult) {
	vtime.SetVirtual(vtime.Epoch)
	res.Data = map[uint64][]byte{}
	a := newPeer(m)
	bb := newPeer(1 << 20)
	stop := make(chan struct{})
	var link sync.WaitGroup
	link.Add(2)
	go func() { // A -> B
		defer link.Done()
		for {
			select {
			case <-stop:
				return
			case msg := <-a.out:
				if s, ok := msg.(*msgs.DataTransmissionMessage); ok {
					res.Segs = append(res.Segs, Seg{s.TransferId, s.Flags&msgs.SegmentStart != 0, s.Flags&msgs.SegmentEnd != 0, len(s.Data)})
					res.Data[s.TransferId] = append(res.Data[s.TransferId], s.Data...)
				}
				select {
				case bb.in <- msg:
				case <-stop:
					return
				}
			}
		}
	}()
	go func() { // B -> A
		defer link.Done()
		for {
			select {
			case <-stop:
				return
			case msg := <-bb.out:
				select {
				case a.in <- msg:
				case <-stop:
					return
				}
			}
		}
	}()
	var sendErr error
	if !wd(func() { sendErr = a.tm.Send(b) }) {
		res.Hang = "Send did not return"
		close(stop)
		return
	}
	if sendErr != nil {
		res.SendErr = []string{sendErr.Error()}
	} else {
		res.SendErr = []string{""}
	}
	if !bb.quiesce() {
		res.Hang = "receiver did not quiesce"
	}
	close(stop)
	link.Wait()
	_ = a.tm.Close()
	_ = bb.tm.Close()
	bb.mu.Lock()
	res.Delivered = bb.got
	res.RecvErrs = bb.errs
	bb.mu.Unlock()
	return
}

// Fault scenarios: the harness plays the receiving peer.
//
//	mode "silent": acknowledges the first k segments, then nothing
//	mode "refuse": acknowledges k segments, then refuses
//	mode "close":  acknowledges k segments, then the session is closed (manager stopped)
//	mode "short":  acknowledges every segment, but the k-th and later ones with a length one byte short
//	mode "zero":   acknowledges with length 0 from the k-th segment on
// Faulty sends b through a TransferManager whose peer (the harness) misbehaves in the given way at segment k. If a
// further bundle is given it is sent afterwards through the same manager with a well-behaved peer: res.Next holds
// its segments and res.NextErr the result (state must not leak from the failed transfer into the next one).
func Faulty(b bpv7.Bundle, m uint64, mode string, k int, next ...bpv7.Bundle) (res TransferResult) {
	var progress int64
	total := int64((len(ser(&b)) + int(m) - 1) / int(m)) // segments of the first transfer
	var healthy int32
	acked2 := 0
	vtime.SetVirtual(vtime.Epoch)
	res.Data = map[uint64][]byte{}
	a := newPeer(m)
	stop := make(chan struct{})
	done := make(chan struct{})
	go func() {
		defer close(done)
		n, acked := 0, 0
		for {
			select {
			case <-stop:
				return
			case msg := <-a.out:
				s, ok := msg.(*msgs.DataTransmissionMessage)
				if !ok {
					continue
				}
				if atomic.LoadInt32(&healthy) != 0 {
					// second transfer: a well-behaved peer. Segments of the refused / abandoned first transfer that
					// were still in flight are not acknowledged (the sender has forgotten that transfer and treats an
					// acknowledgement for it as a protocol violation that ends the session).
					if len(res.Segs) > 0 && s.TransferId == res.Segs[0].Tid {
						continue
					}
					if s.Flags&msgs.SegmentStart != 0 {
						acked2 = 0
					}
					res.Next = append(res.Next, Seg{s.TransferId, s.Flags&msgs.SegmentStart != 0, s.Flags&msgs.SegmentEnd != 0, len(s.Data)})
					res.NextData = append(res.NextData, s.Data...)
					acked2 += len(s.Data)
					atomic.AddInt64(&progress, 1)
					select {
					case a.in <- msgs.NewDataAcknowledgementMessage(s.Flags, s.TransferId, uint64(acked2)):
					case <-stop:
						return
					}
					continue
				}
				res.Segs = append(res.Segs, Seg{s.TransferId, s.Flags&msgs.SegmentStart != 0, s.Flags&msgs.SegmentEnd != 0, len(s.Data)})
				atomic.AddInt64(&progress, 1)
				acked += len(s.Data)
				var reply msgs.Message
				switch {
				case n < k:
					reply = msgs.NewDataAcknowledgementMessage(s.Flags, s.TransferId, uint64(acked))
				case mode == "stall":
					// the peer stops reading altogether: the sender blocks in the middle of the transfer
					if n == k {
						<-stop
						return
					}
				case mode == "silent":
				case len(mode) > 6 && mode[:6] == "refuse":
					if n == k {
						reply = msgs.NewTransferRefusalMessage(msgs.TransferRefusalCode(mode[6]-'0'), s.TransferId)
					}
				case mode == "close":
					if n == k {
						_ = a.tm.Close()
					}
				case mode == "short":
					reply = msgs.NewDataAcknowledgementMessage(s.Flags, s.TransferId, uint64(acked-1))
				case mode == "zero":
					reply = msgs.NewDataAcknowledgementMessage(s.Flags, s.TransferId, 0)
				}
				n++
				if reply != nil {
					select {
					case a.in <- reply:
					case <-stop:
						return
					}
				}
			}
		}
	}()
	var sendErr error
	ret := make(chan struct{})
	go func() { sendErr = a.tm.Send(b); close(ret) }()
	// the acknowledgement timeout runs on the virtual clock: keep advancing it until Send returns
	deadline := time.Now().Add(stepWatchdog)
	lastSegs, lastProgress := int64(-1), time.Now()
	for returned := false; !returned; {
		select {
		case <-ret:
			returned = true
		default:
			if time.Now().After(deadline) {
				res.Hang = "Send did not return although the virtual clock passed the acknowledgement timeout many times"
				close(stop)
				return
			}
			runtime.Gosched()
			time.Sleep(200 * time.Microsecond)
			// the acknowledgement timeout must not race with the exchange itself: it expires only after the
			// transfer has made no progress for a while of real time
			if n := atomic.LoadInt64(&progress); n != lastSegs {
				lastSegs, lastProgress = n, time.Now()
			} else if n >= total && time.Since(lastProgress) > time.Millisecond || time.Since(lastProgress) > 60*time.Millisecond {
				// every segment of the transfer has been seen (and answered as scripted): nothing but the timeout
				// is left. The long quiet period covers senders that stop early without returning.
				vtime.Advance(11 * time.Second)
				lastProgress = time.Now()
			}
		}
	}
	if sendErr != nil {
		res.SendErr = []string{sendErr.Error()}
	} else {
		res.SendErr = []string{""}
	}
	if len(next) > 0 && mode != "close" {
		atomic.StoreInt32(&healthy, 1)
		ret2 := make(chan error, 1)
		go func() { ret2 <- a.tm.Send(next[0]) }()
		d2 := time.Now().Add(stepWatchdog)
	wait2:
		for {
			select {
			case e := <-ret2:
				if e != nil {
					res.NextErr = e.Error()
				}
				res.NextRan = true
				break wait2
			default:
				if time.Now().After(d2) {
					// every segment is acknowledged at once, so nothing has to time out: the virtual clock stands
					// still and only this real-time watchdog ends a transfer that does not complete
					res.NextErr = "the transfer did not complete although the peer acknowledged every segment"
					res.NextRan = true
					break wait2
				}
				time.Sleep(200 * time.Microsecond)
			}
		}
	}
	close(stop)
	<-done
	_ = a.tm.Close()
	return
}

// Merge scenario: two bundles are sent concurrently from A to B (and, if
// both is set, one of them in the other direction instead); the harness is the
// network and delivers the queued messages of the two flows in the interleaving
// given by order: order[i] selects the flow (0/1) whose next message is
// delivered i-th; acknowledgements travel back in the interleaving ackOrder.
type MergeResult struct {
	SendErr   []string
	Delivered [][]byte // at B (flows A->B), then at A (flow B->A)
	RecvErrs  []string
	Hang      string
	NSeg      []int
}

func Merge(b0, b1 bpv7.Bundle, m uint64, both bool, order, ackOrder []int) (res MergeResult) {
	vtime.SetVirtual(vtime.Epoch)
	a := newPeer(m)
	bb := newPeer(m)
	// flow 0: A sends b0 to B. flow 1: A sends b1 to B, or (both) B sends b1 to A.
	senders := []*peer{a, a}
	if both {
		senders[1] = bb
	}
	errs := make([]error, 2)
	rets := []chan struct{}{make(chan struct{}), make(chan struct{})}
	go func() { errs[0] = senders[0].tm.Send(b0); close(rets[0]) }()
	go func() { errs[1] = senders[1].tm.Send(b1); close(rets[1]) }()
	// collect all segments of both flows (senders do not wait for acknowledgements)
	expect := []int{(len(ser(&b0)) + int(m) - 1) / int(m), (len(ser(&b1)) + int(m) - 1) / int(m)}
	if both {
		// transfer ids are per sender: both are id 0; distinguish by source channel
	}
	q := [][]msgs.Message{nil, nil}
	ended := []bool{false, false}
	okc := wd(func() {
		for !(ended[0] && ended[1]) {
			var msg msgs.Message
			var flow int
			if both {
				select {
				case msg = <-a.out:
					flow = 0
				case msg = <-bb.out:
					flow = 1
				}
			} else {
				msg = <-a.out
				s := msg.(*msgs.DataTransmissionMessage)
				flow = int(s.TransferId)
			}
			s, isSeg := msg.(*msgs.DataTransmissionMessage)
			if !isSeg {
				continue
			}
			q[flow] = append(q[flow], msg)
			if s.Flags&msgs.SegmentEnd != 0 || len(q[flow]) >= expect[flow]+1 {
				ended[flow] = true
			}
		}
	})
	res.NSeg = []int{len(q[0]), len(q[1])}
	if !okc {
		res.Hang = "collecting segments"
		return
	}
	// deliver segments in the chosen interleaving; collect acks per flow
	acks := [][]msgs.Message{nil, nil}
	idx := []int{0, 0}
	deliver := func(flow int) bool {
		if idx[flow] >= len(q[flow]) {
			return true
		}
		msg := q[flow][idx[flow]]
		idx[flow]++
		dst := bb
		if both && flow == 1 {
			dst = a
		}
		return wd(func() {
			dst.in <- msg
			ack := <-dst.out // the receiver acknowledges before anything else
			acks[flow] = append(acks[flow], ack)
		})
	}
	for _, f := range order {
		if !deliver(f) {
			res.Hang = fmt.Sprintf("delivering segment of flow %d", f)
			return
		}
	}
	for f := 0; f < 2; f++ {
		for idx[f] < len(q[f]) {
			if !deliver(f) {
				res.Hang = "delivering rest"
				return
			}
		}
	}
	// acknowledgements back in the chosen interleaving
	aidx := []int{0, 0}
	sendAck := func(flow int) bool {
		if aidx[flow] >= len(acks[flow]) {
			return true
		}
		msg := acks[flow][aidx[flow]]
		aidx[flow]++
		dst := senders[flow]
		return wd(func() { dst.in <- msg })
	}
	for _, f := range ackOrder {
		if !sendAck(f) {
			res.Hang = "delivering ack"
			return
		}
	}
	for f := 0; f < 2; f++ {
		for aidx[f] < len(acks[f]) {
			if !sendAck(f) {
				res.Hang = "delivering rest of acks"
				return
			}
		}
	}
	for f := 0; f < 2; f++ {
		if !wd(func() { <-rets[f] }) {
			res.Hang = fmt.Sprintf("Send of flow %d did not return after all acknowledgements were delivered", f)
			return
		}
		if errs[f] != nil {
			res.SendErr = append(res.SendErr, errs[f].Error())
		} else {
			res.SendErr = append(res.SendErr, "")
		}
	}
	if !bb.quiesce() || !a.quiesce() {
		res.Hang = "quiesce"
		return
	}
	bb.mu.Lock()
	res.Delivered = append(res.Delivered, bb.got...)
	res.RecvErrs = append(res.RecvErrs, bb.errs...)
	bb.mu.Unlock()
	a.mu.Lock()
	res.Delivered = append(res.Delivered, a.got...)
	res.RecvErrs = append(res.RecvErrs, a.errs...)
	a.mu.Unlock()
	_ = a.tm.Close()
	_ = bb.tm.Close()
	return
}

// SendWithMRU runs TransferManager.Send towards a peer that declared the given segment MRU during session
// setup (the harness acknowledges every segment). It reports how Send ended.
func SendWithMRU(b bpv7.Bundle, mru uint64) (outcome string, segments int) {
	defer func() {
		if r := recover(); r != nil {
			outcome = fmt.Sprintf("PANIC: %v", r)
		}
	}()
	vtime.SetVirtual(vtime.Epoch)
	in := make(chan msgs.Message)
	out := make(chan msgs.Message)
	var tm *utils.TransferManager
	func() {
		defer func() {
			if r := recover(); r != nil {
				outcome = fmt.Sprintf("PANIC: %v", r)
			}
		}()
		tm = utils.NewTransferManager(in, out, mru)
	}()
	if tm == nil {
		return
	}
	stop := make(chan struct{})
	var mu sync.Mutex
	go func() {
		acked := 0
		for {
			select {
			case <-stop:
				return
			case m := <-out:
				if s, ok := m.(*msgs.DataTransmissionMessage); ok {
					mu.Lock()
					segments++
					n := segments
					mu.Unlock()
					acked += len(s.Data)
					if n > 100000 {
						continue // a spinning sender: stop acknowledging, the harness gives up below
					}
					select {
					case in <- msgs.NewDataAcknowledgementMessage(s.Flags, s.TransferId, uint64(acked)):
					case <-stop:
						return
					}
				}
			}
		}
	}()
	ret := make(chan error, 1)
	go func() {
		defer func() {
			if r := recover(); r != nil {
				ret <- fmt.Errorf("PANIC: %v", r)
			}
		}()
		ret <- tm.Send(b)
	}()
	deadline := time.Now().Add(20 * time.Second)
	lastN, lastProgress := -1, time.Now()
	for {
		select {
		case err := <-ret:
			close(stop)
			_ = tm.Close()
			mu.Lock()
			defer mu.Unlock()
			if err != nil {
				return "error: " + err.Error(), segments
			}
			return "ok", segments
		default:
		}
		mu.Lock()
		n := segments
		mu.Unlock()
		if n > 100000 {
			close(stop)
			return "SPIN: more than 100000 segments for one small bundle", n
		}
		if time.Now().After(deadline) {
			close(stop)
			return "HANG", n
		}
		time.Sleep(100 * time.Microsecond)
		// the sender's acknowledgement timeout runs on the virtual clock: let it expire only when the transfer has
		// made no progress for a while of real time (otherwise the timeout would race with the sender itself)
		if n != lastN {
			lastN, lastProgress = n, time.Now()
		} else if time.Since(lastProgress) > 300*time.Millisecond {
			vtime.Advance(11 * time.Second)
			lastProgress = time.Now()
		}
	}
}
