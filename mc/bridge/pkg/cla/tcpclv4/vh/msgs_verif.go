// Package vh is the model checker's harness for the TCPCLv4 internals (it lives
// below pkg/cla/tcpclv4 in the scratch copy so that it may import internal/).
package vh

import (
	"bytes"
	"fmt"
	"reflect"

	"github.com/dtn7/dtn7-go/pkg/cla/tcpclv4/internal/msgs"
)

// Msg is a neutral description of a TCPCLv4 message.
type Msg struct {
	Kind string // contact sess_init sess_term xfer_segment xfer_ack xfer_refuse keepalive reject
	A, B uint64 // numeric fields in declaration order
	C    uint64
	S    string
	D    []byte
}

func (m Msg) build() msgs.Message {
	switch m.Kind {
	case "contact":
		return msgs.NewContactHeader(msgs.ContactFlags(m.A))
	case "sess_init":
		return msgs.NewSessionInitMessage(uint16(m.A), m.B, m.C, m.S)
	case "sess_term":
		return msgs.NewSessionTerminationMessage(msgs.SessionTerminationFlags(m.A), msgs.SessionTerminationCode(m.B))
	case "xfer_segment":
		return msgs.NewDataTransmissionMessage(msgs.SegmentFlags(m.A), m.B, m.D)
	case "xfer_ack":
		return msgs.NewDataAcknowledgementMessage(msgs.SegmentFlags(m.A), m.B, m.C)
	case "xfer_refuse":
		return msgs.NewTransferRefusalMessage(msgs.TransferRefusalCode(m.A), m.B)
	case "keepalive":
		return msgs.NewKeepaliveMessage()
	case "reject":
		return msgs.NewMessageRejectionMessage(msgs.MessageRejectionReason(m.A), uint8(m.B))
	}
	panic("vh: unknown kind " + m.Kind)
}

func describe(x msgs.Message) Msg {
	switch v := x.(type) {
	case *msgs.ContactHeader:
		return Msg{Kind: "contact", A: uint64(v.Flags)}
	case *msgs.SessionInitMessage:
		return Msg{Kind: "sess_init", A: uint64(v.KeepaliveInterval), B: v.SegmentMru, C: v.TransferMru, S: v.NodeId}
	case *msgs.SessionTerminationMessage:
		return Msg{Kind: "sess_term", A: uint64(v.Flags), B: uint64(v.ReasonCode)}
	case *msgs.DataTransmissionMessage:
		return Msg{Kind: "xfer_segment", A: uint64(v.Flags), B: v.TransferId, D: v.Data}
	case *msgs.DataAcknowledgementMessage:
		return Msg{Kind: "xfer_ack", A: uint64(v.Flags), B: v.TransferId, C: v.AckLen}
	case *msgs.TransferRefusalMessage:
		return Msg{Kind: "xfer_refuse", A: uint64(v.ReasonCode), B: v.TransferId}
	case *msgs.KeepaliveMessage:
		return Msg{Kind: "keepalive"}
	case *msgs.MessageRejectionMessage:
		return Msg{Kind: "reject", A: uint64(v.ReasonCode), B: uint64(v.MessageHeader)}
	}
	return Msg{Kind: fmt.Sprintf("%T", x)}
}

// Equal compares two descriptions (nil and empty data are the same).
func (m Msg) Equal(o Msg) bool {
	if len(m.D) == 0 && len(o.D) == 0 {
		m.D, o.D = nil, nil
	}
	return reflect.DeepEqual(m, o)
}

// Encode marshals the message.
func Encode(m Msg) ([]byte, error) {
	var buf bytes.Buffer
	err := m.build().Marshal(&buf)
	return buf.Bytes(), err
}

// DecodeStream reads messages with msgs.ReadMessage until the data is used up
// or an error occurs. It returns the messages and the number of bytes consumed
// after each one.
func DecodeStream(data []byte) (out []Msg, consumed []int, err error) {
	defer func() {
		if r := recover(); r != nil {
			err = fmt.Errorf("PANIC: %v", r)
		}
	}()
	r := bytes.NewReader(data)
	for r.Len() > 0 {
		x, e := msgs.ReadMessage(r)
		if e != nil {
			return out, consumed, e
		}
		out = append(out, describe(x))
		consumed = append(consumed, len(data)-r.Len())
	}
	return
}

// chunkReader delivers at most n bytes per Read call (a TCP stream or a buffered reader at a refill boundary hands
// out a message in pieces).
type chunkReader struct {
	r    *bytes.Reader
	n    int
	used int
}

func (c *chunkReader) Read(p []byte) (int, error) {
	if len(p) > c.n {
		p = p[:c.n]
	}
	k, err := c.r.Read(p)
	c.used += k
	return k, err
}

// DecodeStreamChunked is DecodeStream over a reader that returns at most chunk bytes per Read.
func DecodeStreamChunked(data []byte, chunk int) (out []Msg, consumed []int, err error) {
	defer func() {
		if r := recover(); r != nil {
			err = fmt.Errorf("PANIC: %v", r)
		}
	}()
	cr := &chunkReader{r: bytes.NewReader(data), n: chunk}
	for cr.r.Len() > 0 {
		x, e := msgs.ReadMessage(cr)
		if e != nil {
			return out, consumed, e
		}
		out = append(out, describe(x))
		consumed = append(consumed, cr.used)
	}
	return
}
