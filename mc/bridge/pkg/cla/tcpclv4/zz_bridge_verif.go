package tcpclv4

// Bridge for the model checker (scratch copy only): build a Client on a given connection instead of dialling, and
// a scripted passive TCPCLv4 peer that announces a chosen segment MRU. No logic of the Client is duplicated.

import (
	"bufio"
	"bytes"
	"fmt"
	"net"

	"github.com/dtn7/dtn7-go/pkg/bpv7"
	"github.com/dtn7/dtn7-go/pkg/cla/tcpclv4/internal/msgs"
	"github.com/dtn7/dtn7-go/pkg/cla/tcpclv4/internal/utils"
)

// VerifPipeClient returns a Client that talks over conn (what DialTCP / the listener set up after connecting).
func VerifPipeClient(conn net.Conn, active bool, eid bpv7.EndpointID) *Client {
	return &Client{
		address:         "pipe-" + eid.String(),
		activePeer:      active,
		customStartFunc: func(c *Client) error { return fmt.Errorf("no restart in the harness") },
		connCloser:      conn,
		messageSwitch:   utils.NewMessageSwitchReaderWriter(conn, conn),
		nodeId:          eid,
	}
}

// VerifSeg is one XFER_SEGMENT seen by the scripted peer.
type VerifSeg struct {
	Start, End bool
	Len        int
	Tid        uint64
}

// VerifScriptedPeer plays a passive TCPCLv4 peer on conn: contact header, SESS_INIT announcing the given segment MRU,
// then it acknowledges every segment of `transfers` bundle transfers and returns what it saw.
func VerifScriptedPeer(conn net.Conn, mru uint64, transfers int) (segs []VerifSeg, data [][]byte, err error) {
	r := bufio.NewReader(conn)
	send := func(m msgs.Message) error {
		var buf bytes.Buffer
		if e := m.Marshal(&buf); e != nil {
			return e
		}
		_, e := conn.Write(buf.Bytes())
		return e
	}
	if m, e := msgs.ReadMessage(r); e != nil {
		return nil, nil, e
	} else if _, ok := m.(*msgs.ContactHeader); !ok {
		return nil, nil, fmt.Errorf("expected contact header, got %T", m)
	}
	if e := send(msgs.NewContactHeader(0)); e != nil {
		return nil, nil, e
	}
	if m, e := msgs.ReadMessage(r); e != nil {
		return nil, nil, e
	} else if _, ok := m.(*msgs.SessionInitMessage); !ok {
		return nil, nil, fmt.Errorf("expected SESS_INIT, got %T", m)
	}
	if e := send(msgs.NewSessionInitMessage(30, mru, 1<<30, "dtn://peer/")); e != nil {
		return nil, nil, e
	}
	var cur bytes.Buffer
	for len(data) < transfers {
		m, e := msgs.ReadMessage(r)
		if e != nil {
			return segs, data, e
		}
		dtm, ok := m.(*msgs.DataTransmissionMessage)
		if !ok {
			continue // e.g. KEEPALIVE
		}
		segs = append(segs, VerifSeg{dtm.Flags&msgs.SegmentStart != 0, dtm.Flags&msgs.SegmentEnd != 0, len(dtm.Data), dtm.TransferId})
		cur.Write(dtm.Data)
		if e := send(msgs.NewDataAcknowledgementMessage(dtm.Flags, dtm.TransferId, uint64(cur.Len()))); e != nil {
			return segs, data, e
		}
		if dtm.Flags&msgs.SegmentEnd != 0 {
			data = append(data, append([]byte(nil), cur.Bytes()...))
			cur.Reset()
		}
	}
	return segs, data, nil
}
