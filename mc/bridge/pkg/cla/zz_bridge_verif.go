package cla

// Bridge for the model checker (scratch copy only). No logic.

// VerifInject puts a status message into the channel the manager's handler reads from adapters.
func (manager *Manager) VerifInject(cs ConvergenceStatus) { manager.inChnl <- cs }

// VerifSetQueueTtl sets the initial retry budget of adapters registered afterwards.
func (manager *Manager) VerifSetQueueTtl(n int32) { manager.queueTtl = n }
