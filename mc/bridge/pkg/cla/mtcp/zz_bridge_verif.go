package mtcp

// Bridge for the model checker (scratch copy only): run the server's connection handler on a given connection and
// build a client on a given connection instead of dialling. No logic.

import (
	"net"

	"github.com/dtn7/dtn7-go/pkg/bpv7"
	"github.com/dtn7/dtn7-go/pkg/cla"
)

// VerifHandleSender runs the connection handler until it returns.
func (serv *MTCPServer) VerifHandleSender(conn net.Conn) { serv.handleSender(conn) }

// VerifNewClient returns a started client that uses conn (no handler goroutine, no keep-alive ticker).
func VerifNewClient(conn net.Conn, peer bpv7.EndpointID) *MTCPClient {
	c := NewMTCPClient("verif", peer, false)
	c.conn = conn
	c.reportChan = make(chan cla.ConvergenceStatus, 16)
	return c
}

// VerifNewClientLive is VerifNewClient plus the client's real handler goroutine (keep-alive ticker, stop handling),
// exactly as Start launches it after dialling.
func VerifNewClientLive(conn net.Conn, peer bpv7.EndpointID) *MTCPClient {
	c := NewMTCPClient("verif", peer, false)
	c.conn = conn
	c.reportChan = make(chan cla.ConvergenceStatus, 16)
	c.stopSyn = make(chan struct{})
	c.stopAck = make(chan struct{})
	go c.handler()
	return c
}
