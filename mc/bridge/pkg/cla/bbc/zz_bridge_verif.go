package bbc

// Bridge for the model checker (scratch copy only). No logic.

// VerifHandle hands a received fragment to the connector exactly like its reader goroutine does.
func (c *Connector) VerifHandle(f Fragment) error { return c.handleIncomingFragment(f) }

// VerifDrainOut returns the fragments the connector queued for transmission (failure reports).
func (c *Connector) VerifDrainOut() (out []Fragment) {
	for {
		select {
		case f := <-c.fragmentOut:
			out = append(out, f)
		default:
			return
		}
	}
}

// VerifDrainFailures empties the queue of failure notifications for outgoing transmissions.
func (c *Connector) VerifDrainFailures() (out []byte) {
	for {
		select {
		case t := <-c.failTransmission:
			out = append(out, t)
		default:
			return
		}
	}
}
