package routing

// Bridge for the model checker (added to the scratch copy only). Each function
// is a single call or field read; no logic.

import (
	"github.com/dtn7/dtn7-go/pkg/agent"
	"github.com/dtn7/dtn7-go/pkg/bpv7"
	"github.com/dtn7/dtn7-go/pkg/cla"
	"github.com/dtn7/dtn7-go/pkg/storage"
)

// VerifInject hands a status message to the Core's handler exactly like the CLA manager does.
func (c *Core) VerifInject(cs cla.ConvergenceStatus) { c.claManager.Channel() <- cs }

func (c *Core) VerifStore() *storage.Store { return c.store }
func (c *Core) VerifManager() *cla.Manager { return c.claManager }
func (c *Core) VerifAlgorithm() Algorithm  { return c.routing }
func (c *Core) VerifRetryTick()            { c.checkPendingBundles() }
func (c *Core) VerifIdKeeper() *IdKeeper   { return &c.idKeeper }

// VerifAgentFlush pushes a message addressed to nobody through the agent multiplexer; when it has been taken,
// every bundle handed to the multiplexer before has been passed on to the registered agents.
func (c *Core) VerifAgentFlush() {
	c.agentManager.mux.MessageReceiver() <- agent.SyscallRequestMessage{Sender: bpv7.DtnNone(), Request: "verif-flush"}
}

// VerifAgentMarker pushes a message for the given endpoint through the agent multiplexer (agents ignore it).
func (c *Core) VerifAgentMarker(eid bpv7.EndpointID) {
	c.agentManager.mux.MessageReceiver() <- agent.SyscallRequestMessage{Sender: eid, Request: "verif-marker"}
}

// VerifCloseAgents shuts the agent manager down (Core.Close leaves it running).
func (c *Core) VerifCloseAgents() { _ = c.agentManager.Close() }

// VerifTakeCron removes every registered cron job and returns the tasks, so that the harness decides when they run.
func (c *Core) VerifTakeCron() map[string]func() {
	c.cron.mutex.Lock()
	defer c.cron.mutex.Unlock()
	out := map[string]func(){}
	for name, job := range c.cron.jobs {
		out[name] = job.task
		delete(c.cron.jobs, name)
	}
	return out
}

// VerifCronJobs lists the registered jobs with their intervals (seconds).
func (c *Core) VerifCronJobs() map[string]int {
	c.cron.mutex.Lock()
	defer c.cron.mutex.Unlock()
	out := map[string]int{}
	for name, job := range c.cron.jobs {
		out[name] = int(job.interval.Seconds())
	}
	return out
}

// VerifForward runs Core.forward for a stored bundle (what a retry does after dispatching).
func (c *Core) VerifForward(bid bpv7.BundleID) { c.forward(NewBundleDescriptor(bid, c.store)) }

// VerifDispatch runs Core.dispatching for a stored bundle.
func (c *Core) VerifDispatch(bid bpv7.BundleID) { c.dispatching(NewBundleDescriptor(bid, c.store)) }

// VerifConstraints returns the retention constraints persisted for a bundle.
func (c *Core) VerifConstraints(bid bpv7.BundleID) []string {
	d := NewBundleDescriptor(bid, c.store)
	var out []string
	for k := range d.Constraints {
		out = append(out, k.String())
	}
	return out
}

// VerifUnwrap returns the algorithm below a sensor-mule wrapper.
func VerifUnwrap(a Algorithm) Algorithm {
	if s, ok := a.(*SensorNetworkMuleRouting); ok {
		return s.algorithm
	}
	return a
}

// Read-only dumps of algorithm tables.

func VerifProphet(a Algorithm) (own map[bpv7.EndpointID]float64, peers map[bpv7.EndpointID]map[bpv7.EndpointID]float64, ok bool) {
	p, ok := VerifUnwrap(a).(*Prophet)
	if !ok {
		return nil, nil, false
	}
	p.dataMutex.RLock()
	defer p.dataMutex.RUnlock()
	own = map[bpv7.EndpointID]float64{}
	for k, v := range p.predictabilities {
		own[k] = v
	}
	peers = map[bpv7.EndpointID]map[bpv7.EndpointID]float64{}
	for k, m := range p.peerPredictabilities {
		peers[k] = map[bpv7.EndpointID]float64{}
		for k2, v := range m {
			peers[k][k2] = v
		}
	}
	return own, peers, true
}

func VerifDTLSRTable(a Algorithm) (table map[bpv7.EndpointID]bpv7.EndpointID, ok bool) {
	d, ok := VerifUnwrap(a).(*DTLSR)
	if !ok {
		return nil, false
	}
	d.dataMutex.RLock()
	defer d.dataMutex.RUnlock()
	table = map[bpv7.EndpointID]bpv7.EndpointID{}
	for k, v := range d.routingTable {
		table[k] = v
	}
	return table, true
}

func VerifDTLSRReceived(a Algorithm) (data map[bpv7.EndpointID]bpv7.DTLSRPeerData, own bpv7.DTLSRPeerData, ok bool) {
	d, ok := VerifUnwrap(a).(*DTLSR)
	if !ok {
		return nil, bpv7.DTLSRPeerData{}, false
	}
	d.dataMutex.RLock()
	defer d.dataMutex.RUnlock()
	data = map[bpv7.EndpointID]bpv7.DTLSRPeerData{}
	for k, v := range d.receivedData {
		data[k] = v
	}
	return data, d.peers, true
}

func VerifSprayCopies(a Algorithm, bid bpv7.BundleID) (copies uint64, known bool) {
	switch s := VerifUnwrap(a).(type) {
	case *SprayAndWait:
		s.dataMutex.RLock()
		defer s.dataMutex.RUnlock()
		m, ok := s.bundleData[bid]
		return m.remainingCopies, ok
	case *BinarySpray:
		s.dataMutex.RLock()
		defer s.dataMutex.RUnlock()
		m, ok := s.bundleData[bid]
		return m.remainingCopies, ok
	}
	return 0, false
}

// --- PRoPHET seams: each function runs the algorithm's own (unexported) code once ---

// VerifNewProphet creates a fresh PRoPHET instance on the Core (its cron registration may report a duplicate name).
func VerifNewProphet(c *Core, cfg ProphetConfig) *Prophet { return NewProphet(c, cfg) }

// VerifEncounter runs the encounter update for a peer.
func (prophet *Prophet) VerifEncounter(peer bpv7.EndpointID) {
	prophet.dataMutex.Lock()
	prophet.encounter(peer)
	prophet.dataMutex.Unlock()
}

// VerifAge runs the registered ageing task.
func (prophet *Prophet) VerifAge() { prophet.ageCron() }

// VerifVector feeds a received metadata bundle to NotifyNewBundle without filing it in the store.
func (prophet *Prophet) VerifVector(b bpv7.Bundle) {
	prophet.NotifyNewBundle(BundleDescriptor{Id: b.ID(), bndl: &b, store: prophet.c.store})
}

// VerifOwn returns a copy of the node's own predictabilities.
func (prophet *Prophet) VerifOwn() map[bpv7.EndpointID]float64 {
	prophet.dataMutex.RLock()
	defer prophet.dataMutex.RUnlock()
	out := map[bpv7.EndpointID]float64{}
	for k, v := range prophet.predictabilities {
		out[k] = v
	}
	return out
}

// --- DTLSR seams ---

// VerifNewDTLSR creates a fresh DTLSR instance on the Core (cron registrations may report duplicate names).
func VerifNewDTLSR(c *Core, cfg DTLSRConfig) *DTLSR { return NewDTLSR(c, cfg) }

// VerifLinkState feeds a received link-state bundle to NotifyNewBundle without filing it in the store.
func (dtlsr *DTLSR) VerifLinkState(b bpv7.Bundle) {
	dtlsr.NotifyNewBundle(BundleDescriptor{Id: b.ID(), bndl: &b, store: dtlsr.c.store})
}

// VerifRecompute runs the registered recompute task.
func (dtlsr *DTLSR) VerifRecompute() { dtlsr.recomputeCron() }

// VerifTable returns a copy of the routing table.
func (dtlsr *DTLSR) VerifTable() map[bpv7.EndpointID]bpv7.EndpointID {
	t, _ := VerifDTLSRTable(dtlsr)
	return t
}

// VerifReceived returns the stored link-state data of other nodes.
func (dtlsr *DTLSR) VerifReceived() map[bpv7.EndpointID]bpv7.DTLSRPeerData {
	d, _, _ := VerifDTLSRReceived(dtlsr)
	return d
}

// VerifHandle processes one convergence status message exactly as Core.handler does, in the caller's goroutine
// (schedule exploration runs the handler's work as a managed thread).
func (c *Core) VerifHandle(cs cla.ConvergenceStatus) {
	switch cs.MessageType {
	case cla.ReceivedBundle:
		crb := cs.Message.(cla.ConvergenceReceivedBundle)
		bp := NewBundleDescriptorFromBundle(*crb.Bundle, c.store)
		bp.Receiver = crb.Endpoint
		_ = bp.Sync()
		c.receive(bp)
	case cla.PeerAppeared:
		c.routing.ReportPeerAppeared(cs.Sender)
		c.checkPendingBundles()
	case cla.PeerDisappeared:
		c.routing.ReportPeerDisappeared(cs.Sender)
	}
}

// VerifProphetLive returns the live maps of the node's own and the peers' predictabilities (for identity tracking only).
func VerifProphetLive(a Algorithm) (own map[bpv7.EndpointID]float64, peers map[bpv7.EndpointID]map[bpv7.EndpointID]float64) {
	if p, ok := VerifUnwrap(a).(*Prophet); ok {
		return p.predictabilities, p.peerPredictabilities
	}
	return nil, nil
}

// VerifProphetOf returns the PRoPHET instance behind an algorithm (nil if it is none).
func VerifProphetOf(a Algorithm) *Prophet {
	p, _ := VerifUnwrap(a).(*Prophet)
	return p
}

// VerifPurge runs the registered purge task.
func (dtlsr *DTLSR) VerifPurge() { dtlsr.purgePeers() }
