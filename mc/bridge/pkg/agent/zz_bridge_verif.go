package agent

// Bridge for the model checker (added to the scratch copy only): exposes the
// unexported WebSocket-agent message codec. No logic.

import (
	"bytes"
	"fmt"

	"github.com/dtn7/dtn7-go/pkg/bpv7"
)

// VerifWam describes a WebSocket agent message in plain fields.
type VerifWam struct {
	Code   uint64
	Text   string
	Bytes  []byte
	Bundle *bpv7.Bundle
}

func VerifWamEncode(m VerifWam) ([]byte, error) {
	var w webAgentMessage
	switch m.Code {
	case wamStatusCode:
		w = &wamStatus{m.Text}
	case wamRegisterCode:
		w = &wamRegister{m.Text}
	case wamBundleCode:
		w = &wamBundle{*m.Bundle}
	case wamSyscallRequestCode:
		w = &wamSyscallRequest{m.Text}
	case wamSyscallResponseCode:
		w = &wamSyscallResponse{m.Text, m.Bytes}
	default:
		return nil, fmt.Errorf("unknown code")
	}
	var buf bytes.Buffer
	err := marshalCbor(w, &buf)
	return buf.Bytes(), err
}

// VerifWamDecode decodes one message and reports how many bytes were consumed.
func VerifWamDecode(data []byte) (m VerifWam, consumed int, err error) {
	r := bytes.NewReader(data)
	w, err := unmarshalCbor(r)
	consumed = len(data) - r.Len()
	if err != nil {
		return
	}
	m.Code = w.typeCode()
	switch x := w.(type) {
	case *wamStatus:
		m.Text = x.errorMsg
	case *wamRegister:
		m.Text = x.endpoint
	case *wamBundle:
		b := x.b
		m.Bundle = &b
	case *wamSyscallRequest:
		m.Text = x.request
	case *wamSyscallResponse:
		m.Text, m.Bytes = x.request, x.response
	}
	return
}
