package agent

// VerifDeliver hands a bundle message to the REST agent exactly like its handler goroutine does.
func (ra *RestAgent) VerifDeliver(msg BundleMessage) { ra.receiveBundleMessage(msg) }
