package checks

import (
	"encoding/json"
	"fmt"
	"net/http"
	"net/http/httptest"
	"strings"
	"sync"
	"time"

	"github.com/dtn7/dtn7-go/pkg/agent"
	"github.com/dtn7/dtn7-go/pkg/bpv7"
	"github.com/dtn7/dtn7-go/verif/ev"
	"github.com/dtn7/dtn7-go/verif/gen"
	"github.com/dtn7/dtn7-go/verif/ref"
)

// C07, WebSocket clients: explicit-state search over {client k connects and registers e1/e2, client k closes, a
// bundle arrives for e1/e2/nobody}; every history is replayed on a real Core + WebSocketAgent served by an HTTP
// test server on the loopback interface, clients are real WebSocketAgentConnectors. The sockets are not under the
// scheduler, so only sequential histories are decided here. Quiescence without clocks: every client's pipeline
// (multiplexer -> client writer -> socket -> connector) is FIFO, so after each arrival one fence bundle per
// endpoint is delivered; when a client has its fence, everything routed to it earlier has arrived.

func init() { workers["c07ws"] = c07wsWorker }

type c07wsModel struct {
	Client [3]int // -1 none, else endpoint index
	Got    [3][]int
	N      int
}

func (m c07wsModel) key() string {
	return fmt.Sprintf("%v|%d,%d,%d", m.Client, len(m.Got[0]), len(m.Got[1]), len(m.Got[2]))
}

func (m *c07wsModel) step(e c07Event) bool {
	switch e.Op {
	case "wsreg":
		if m.Client[e.K] >= 0 {
			return false
		}
		m.Client[e.K] = e.E
		m.Got[e.K] = nil
	case "wsclose":
		if m.Client[e.K] < 0 {
			return false
		}
		m.Client[e.K] = -1
		m.Got[e.K] = nil
	case "deliver":
		m.N++
		for k := 0; k < 3; k++ {
			if m.Client[k] == e.E {
				m.Got[k] = append(append([]int(nil), m.Got[k]...), m.N)
			}
		}
	}
	return true
}

func c07wsAlphabet() []c07Event {
	return []c07Event{
		{Op: "wsreg", K: 0, E: 0}, {Op: "wsreg", K: 0, E: 1}, {Op: "wsreg", K: 1, E: 0}, {Op: "wsreg", K: 1, E: 1}, {Op: "wsreg", K: 2, E: 1},
		{Op: "wsclose", K: 0}, {Op: "wsclose", K: 1}, {Op: "wsclose", K: 2},
		{Op: "deliver", E: 0}, {Op: "deliver", E: 1}, {Op: "deliver", E: 2}, {Op: "deliver", E: 3},
	}
}

type c07wsClient struct {
	conn *agent.WebSocketAgentConnector
	mu   sync.Mutex
	got  []int // sequence numbers of the bundles read, fences >= 1000
	done chan struct{}
}

func (c *c07wsClient) reader() {
	defer close(c.done)
	for {
		b, err := c.conn.ReadBundle()
		if err != nil {
			return
		}
		c.mu.Lock()
		c.got = append(c.got, bundleNo(&b))
		c.mu.Unlock()
	}
}

func (c *c07wsClient) snapshot() (data []int, fences int) {
	c.mu.Lock()
	defer c.mu.Unlock()
	for _, n := range c.got {
		if n >= 1000 {
			fences++
		} else {
			data = append(data, n)
		}
	}
	return
}

func c07wsReplay(events []c07Event) (res c07Result) {
	defer func() {
		if r := recover(); r != nil {
			res.Key, res.Desc = "panic", fmt.Sprintf("%v", r)
		}
	}()
	useVirtualClock()
	n, err := newNhNode(nhConfig{Algo: "epidemic", Agents: true})
	if err != nil {
		return c07Result{Key: "harness-open", Desc: err.Error()}
	}
	defer n.destroy()
	ws := agent.NewWebSocketAgent()
	n.core.RegisterApplicationAgent(ws)
	srv := httptest.NewServer(http.HandlerFunc(ws.ServeHTTP))
	defer srv.Close()
	url := "ws://" + srv.Listener.Addr().String() + "/ws"
	n.peerUp("r2")
	n.peerUp("far")
	var cl [3]*c07wsClient
	defer func() {
		for _, c := range cl {
			if c != nil {
				c.conn.Close()
			}
		}
	}()
	m := c07wsModel{Client: [3]int{-1, -1, -1}}
	fencesWanted := [3]int{}
	nFence := 1000
	var obs []string
	fail := func(k, d string, i int) c07Result {
		return c07Result{Key: k, Desc: fmt.Sprintf("after %v: %s", events[:i+1], d)}
	}
	registered := func() int {
		c := 0
		for k := 0; k < 3; k++ {
			if m.Client[k] >= 0 {
				c++
			}
		}
		return c
	}
	for i, e := range events {
		before := n.nSends()
		switch e.Op {
		case "wsreg":
			if m.Client[e.K] >= 0 {
				continue
			}
			conn, cerr := agent.NewWebSocketAgentConnector(url, c07Endpoints[e.E])
			if cerr != nil {
				return fail("ws-register-failed", cerr.Error(), i)
			}
			c := &c07wsClient{conn: conn, done: make(chan struct{})}
			go c.reader()
			cl[e.K] = c
			m.Client[e.K] = e.E
			m.Got[e.K] = nil
			fencesWanted[e.K] = 0
			if !waitFor(func() bool { return len(ws.Endpoints()) == registered() }) {
				return fail("ws-client-not-listed", fmt.Sprintf("the agent lists %d endpoints after %d clients registered", len(ws.Endpoints()), registered()), i)
			}
		case "wsclose":
			if m.Client[e.K] < 0 {
				continue
			}
			cl[e.K].conn.Close()
			<-cl[e.K].done
			cl[e.K] = nil
			m.Client[e.K] = -1
			m.Got[e.K] = nil
			// the server side notices the closed connection asynchronously; wait for it (it can only delay: a client
			// that is never removed shows up as missed bundles of the others later)
			waitFor(func() bool { return len(ws.Endpoints()) == registered() })
		case "deliver":
			m.N++
			b := c07Bundle(m.N, c07Endpoints[e.E])
			var recips []string
			for k := 0; k < 3; k++ {
				if m.Client[k] == e.E {
					m.Got[k] = append(m.Got[k], m.N)
					recips = append(recips, fmt.Sprintf("w%d", k))
				}
			}
			n.receive(b, "r1")
			// fences: one bundle per endpoint that has clients
			for ep := 0; ep < 2; ep++ {
				has := false
				for k := 0; k < 3; k++ {
					if m.Client[k] == ep {
						has = true
						fencesWanted[k]++
					}
				}
				if has {
					nFence++
					fb := c07Bundle(nFence, c07Endpoints[ep])
					fb.PrimaryBlock.BundleControlFlags = 0
					n.receive(fb, "r1")
				}
			}
			for k := 0; k < 3; k++ {
				if m.Client[k] < 0 {
					continue
				}
				c, want := cl[k], fencesWanted[k]
				if !waitFor(func() bool { _, f := c.snapshot(); return f >= want }) {
					d, f := c.snapshot()
					return fail("ws-client-missed-bundles", fmt.Sprintf("client w%d (registered for e%d) has received bundles %v and %d of %d later bundles for its endpoint", k, m.Client[k]+1, d, f, want), i)
				}
			}
			for k := 0; k < 3; k++ {
				if m.Client[k] < 0 {
					continue
				}
				d, f := cl[k].snapshot()
				if fmt.Sprint(d) != fmt.Sprint(m.Got[k]) && !(len(d) == 0 && len(m.Got[k]) == 0) || f != fencesWanted[k] {
					key := "ws-client-bundles-differ"
					if len(d) < len(m.Got[k]) {
						key = "ws-client-missed-bundles"
					}
					return fail(key, fmt.Sprintf("client w%d (registered for e%d) has received %v (+%d fence bundles), must be %v (+%d)", k, m.Client[k]+1, d, f, m.Got[k], fencesWanted[k]), i)
				}
			}
			n.core.VerifAgentFlush()
			sent := false
			var reports []string
			for _, s := range n.sendsSince(before) {
				rb, derr := ref.Decode(s.Enc)
				if derr != nil {
					continue
				}
				if rb.P.Src.String() == "dtn://far/app" && int(rb.P.Seq) == m.N {
					sent = true
				}
				if rb.P.Flags&ref.FAdminRecord != 0 {
					if rep, rerr := decodeReport(rb); rerr == nil && strings.HasSuffix(rep.RefID, fmt.Sprintf("-%d", m.N)) {
						reports = append(reports, fmt.Sprintf("%d/%d", rep.Status, rep.Reason))
					}
				}
			}
			if len(recips) > 0 && sent {
				return fail("locally-registered-bundle-transmitted-to-peers", fmt.Sprintf("bundle %d for e%d has WebSocket recipients %v but was handed to a convergence sender", m.N, e.E+1, recips), i)
			}
			for _, rp := range reports {
				if rp == "2/0" && len(recips) == 0 {
					return fail("delivery-reported-without-hand-over", fmt.Sprintf("bundle %d for e%d: no client is registered, yet a delivered report was sent", m.N, e.E+1), i)
				}
			}
			obs = append(obs, fmt.Sprintf("deliver%d->%v sent=%v rep=%v", m.N, recips, sent, reports))
		}
	}
	res.State = m.key()
	res.Obs = strings.Join(obs, " ; ")
	return
}

func c07wsWorker(task []byte) []byte {
	var t c07Task
	if err := json.Unmarshal(task, &t); err != nil {
		return mustJSON(c07Result{Key: "harness", Desc: err.Error()})
	}
	return mustJSON(c07wsReplay(t.Events))
}

type c07wsStats struct {
	States, Transitions, Validated, Outcomes int
}

func c07wsExplore(r *ev.Run, depth int) c07wsStats {
	alpha := c07wsAlphabet()
	type node struct {
		m     c07wsModel
		trace []c07Event
	}
	seen := map[string]bool{}
	frontier := []node{{m: c07wsModel{Client: [3]int{-1, -1, -1}}}}
	var tasks []c07Task
	var st c07wsStats
	for d := 0; d < depth; d++ {
		var next []node
		for _, nd := range frontier {
			for _, e := range alpha {
				m2 := nd.m
				if !m2.step(e) {
					continue
				}
				tr := append(append([]c07Event(nil), nd.trace...), e)
				st.Transitions++
				tasks = append(tasks, c07Task{Events: tr})
				if k := m2.key(); !seen[k] {
					seen[k] = true
					next = append(next, node{m2, tr})
				}
			}
		}
		frontier = next
	}
	st.States = len(seen)
	raw := make([][]byte, len(tasks))
	for i, t := range tasks {
		raw[i] = mustJSON(t)
	}
	var mu sync.Mutex
	outs := map[string]bool{}
	runPool("c07ws", 0, raw, func(i int, pr poolResult) {
		mu.Lock()
		defer mu.Unlock()
		if pr.Crashed {
			r.Violation("C07/node-crashed:websocket", "wshistory", "node process died: "+lastLines(pr.Stderr, 12), tasks[i])
			return
		}
		var res c07Result
		_ = json.Unmarshal(pr.Res, &res)
		st.Validated++
		outs[res.Obs] = true
		if res.Key != "" {
			r.Violation("C07/"+res.Key, "wshistory", res.Desc, tasks[i])
		}
		if i%499 == 0 {
			r.Sample(map[string]interface{}{"websocket_history": fmt.Sprint(tasks[i].Events), "observed": res.Obs})
		}
	})
	st.Outcomes = len(outs)
	r.Add("websocket_histories", int64(len(tasks)))
	r.Add("websocket_distinct_observation_sequences", int64(len(outs)))
	return st
}

var _ = time.Second
var _ bpv7.Bundle
var _ = gen.MustEID
