package checks

import (
	"encoding/json"
	"fmt"
	"sync"

	"github.com/dtn7/dtn7-go/verif/ev"
)

type nhBFSStats struct {
	States      int
	Transitions int
	Validated   int
	MaxDepth    int
	Outcomes    int
	SendsSeen   int
}

// nhExplore runs a breadth-first search over event histories of the node
// harness: successor = fresh node + replay of the history + one more event,
// states matched by the harness-visible state key returned by the worker.
func nhExplore(r *ev.Run, prop, check string, scenario int, prefix []nhEvent, alphabet []nhEvent, depth int, maxTransitions int, st *nhBFSStats) {
	type node struct{ trace []nhEvent }
	frontier := []node{{append([]nhEvent(nil), prefix...)}}
	seen := map[string]bool{}
	outs := map[string]bool{}
	var mu sync.Mutex
	for d := 0; d < depth && len(frontier) > 0; d++ {
		var tasks []nhTask
		for _, n := range frontier {
			for _, e := range alphabet {
				// skip events that are trivially idempotent right after themselves
				if len(n.trace) > 0 {
					last := n.trace[len(n.trace)-1]
					if last == e && (e.Op == "ok" || e.Op == "fail" || e.Op == "up" || e.Op == "down" || e.Op == "restart" || e.Op == "clean") {
						continue
					}
				}
				tasks = append(tasks, nhTask{Check: check, Scenario: scenario, Events: append(append([]nhEvent(nil), n.trace...), e)})
			}
		}
		if maxTransitions > 0 && st.Transitions+len(tasks) > maxTransitions {
			r.Capped(fmt.Sprintf("%s scenario %d: BFS stopped before depth %d (%d transitions would exceed the tier budget %d); depth %d completed", check, scenario, d+1, st.Transitions+len(tasks), maxTransitions, d))
			return
		}
		raw := make([][]byte, len(tasks))
		for i, t := range tasks {
			raw[i] = mustJSON(t)
		}
		var next []node
		runPool("nh", 0, raw, func(i int, pr poolResult) {
			mu.Lock()
			defer mu.Unlock()
			st.Transitions++
			if pr.Crashed {
				r.Violation(prop+"/node-crashed", "history", fmt.Sprintf("node process died during %v: %s", tasks[i].Events, lastLines(pr.Stderr, 12)), tasks[i])
				return
			}
			var res nhResult
			if err := json.Unmarshal(pr.Res, &res); err != nil {
				r.Violation(prop+"/harness-result", "history", err.Error(), tasks[i])
				return
			}
			st.Validated++
			st.SendsSeen += res.NSend
			if res.Key != "" {
				r.Violation(prop+"/"+res.Key, "history", res.Desc, tasks[i])
				return
			}
			outs[res.Obs] = true
			if !seen[res.State] {
				seen[res.State] = true
				next = append(next, node{tasks[i].Events})
			}
			if st.Transitions%1201 == 0 {
				r.Sample(map[string]interface{}{"check": check, "scenario": scenario, "history": fmt.Sprint(tasks[i].Events), "sends": res.Obs})
			}
		})
		frontier = next
		st.MaxDepth = d + 1
	}
	st.States += len(seen)
	st.Outcomes += len(outs)
}

func nhReplayCmd(c json.RawMessage) (string, bool) {
	var t nhTask
	if err := json.Unmarshal(c, &t); err != nil {
		return err.Error(), false
	}
	failed := false
	desc := ""
	runPool("nh", 1, [][]byte{mustJSON(t)}, func(i int, pr poolResult) {
		if pr.Crashed {
			failed, desc = true, "node process died: "+lastLines(pr.Stderr, 12)
			return
		}
		var res nhResult
		_ = json.Unmarshal(pr.Res, &res)
		failed, desc = res.Key != "", res.Key+": "+res.Desc+" | sends: "+res.Obs
	})
	return desc, failed
}

// nhReplayAny replays a history or a schedule artefact.
func nhReplayAny(kind string, c json.RawMessage) (string, bool) {
	if kind == "sched" {
		return c08ReplaySched(c)
	}
	return nhReplayCmd(c)
}
