package checks

import (
	"encoding/json"
	"fmt"
	"os"
	"os/exec"
	"path/filepath"
	"sort"
	"strings"
	"sync"
	"syscall"

	"github.com/dtn7/dtn7-go/pkg/storage"
	"github.com/dtn7/dtn7-go/verif/ev"
	"github.com/dtn7/dtn7-go/verif/gen"
	"github.com/dtn7/dtn7-go/verif/vrt"
	"github.com/dtn7/dtn7-go/verif/vsync"
)

// ---------------------------------------------------------------------------
// E3: concurrent pushes of different fragments of one bundle

type c08SchedArg struct {
	Objs []int `json:"objs"` // object indices pushed concurrently, one thread each
	Pre  []int `json:"pre"`  // objects pushed sequentially before
}

func init() {
	schedScenarios["c08push"] = schedScenario{Setup: c08SchedSetup}
	workers["c08crashchild"] = nil // placeholder so the name is reserved
	delete(workers, "c08crashchild")
}

var c08SchedSeq int

func c08SchedSetup(arg json.RawMessage) (func(), func(vrt.Result) (string, string, string), func()) {
	var a c08SchedArg
	_ = json.Unmarshal(arg, &a)
	useVirtualClock()
	c08SchedSeq++
	dir := filepath.Join(os.Getenv("VERIF_SCRATCH"), fmt.Sprintf("c08s-%d-%d", os.Getpid(), c08SchedSeq))
	im := &c08Impl{dir: dir, objs: c08Objects()}
	if err := im.open(); err != nil {
		panic(err)
	}
	for _, o := range a.Pre {
		if err := im.store.Push(im.objs[o].b); err != nil {
			panic(err)
		}
	}
	errs := make([]error, len(a.Objs))
	body := func() {
		var wg vsync.WaitGroup
		wg.Add(len(a.Objs))
		for i, o := range a.Objs {
			i, o := i, o
			vrt.Go("harness", func() {
				errs[i] = im.store.Push(im.objs[o].b)
				wg.Done()
			})
		}
		wg.Wait()
	}
	judge := func(res vrt.Result) (obs, key, desc string) {
		var ok []int
		for i, e := range errs {
			if e == nil {
				ok = append(ok, a.Objs[i])
			}
		}
		all := append(append([]int(nil), a.Pre...), ok...)
		obs = fmt.Sprintf("acked=%v", ok)
		bi, err := im.store.QueryId(im.bid(2))
		if err != nil {
			if len(all) > 0 {
				return obs, "record-lost", fmt.Sprintf("pushes %v returned nil but the record does not exist: %v", ok, err)
			}
			return obs + " none", "", ""
		}
		// every acknowledged fragment present exactly once
		have := map[string]int{}
		for _, p := range bi.Parts {
			pb, lerr := p.Load()
			if lerr != nil {
				return obs, "part-unreadable", lerr.Error()
			}
			have[fmt.Sprintf("%d+%d", pb.PrimaryBlock.FragmentOffset, len(payloadOf(&pb)))]++
		}
		var parts []string
		for k, n := range have {
			parts = append(parts, fmt.Sprintf("%s x%d", k, n))
		}
		sort.Strings(parts)
		obs += " parts=" + strings.Join(parts, ",")
		for _, o := range all {
			k := fmt.Sprintf("%d+%d", im.objs[o].lo, im.objs[o].hi-im.objs[o].lo)
			if have[k] != 1 {
				return obs, "acknowledged-fragment-not-stored-exactly-once", fmt.Sprintf("push of %s returned nil but the record holds it %d times (parts %v, errors %v)", im.objs[o].name, have[k], parts, errs)
			}
		}
		return obs, "", ""
	}
	cleanup := func() {
		_ = im.store.Close()
		_ = os.RemoveAll(dir)
	}
	return body, judge, cleanup
}

func c08Sched(r *ev.Run, thorough bool) int {
	type sc struct {
		arg   c08SchedArg
		bound int
	}
	scs := []sc{
		{c08SchedArg{Objs: []int{2, 3}}, 1},
		{c08SchedArg{Objs: []int{3, 4}, Pre: []int{2}}, 1},
	}
	budget := 1500
	if thorough {
		scs = []sc{{c08SchedArg{Objs: []int{2, 3}}, 3}, {c08SchedArg{Objs: []int{3, 4}, Pre: []int{2}}, 3}, {c08SchedArg{Objs: []int{2, 3, 4}}, 2}, {c08SchedArg{Objs: []int{3, 5}, Pre: []int{2}}, 2}, {c08SchedArg{Objs: []int{3, 4, 5}, Pre: []int{2}}, 2}}
		budget = 60000
	}
	total := 0
	for _, s := range scs {
		sum := exploreSchedules("c08push", s.arg, s.bound, budget)
		total += sum.Execs
		r.Add("sched_executions", int64(sum.Execs))
		r.Add("sched_distinct_outcomes", int64(len(sum.Outcomes)))
		if sum.Capped {
			r.Capped(fmt.Sprintf("schedule exploration of %+v with preemption bound %d stopped at the execution budget %d", s.arg, s.bound, budget))
		}
		if sum.Diverged > 0 {
			r.Note(fmt.Sprintf("HARNESS: %d schedule prefixes could not be replayed (nondeterminism)", sum.Diverged))
		}
		for _, v := range sum.Viol {
			r.Violation("C08/concurrent-push:"+v.Key, "sched", v.Desc, schedTask{Scenario: "c08push", Arg: mustJSON(s.arg), Prefix: v.Prefix, Single: true})
		}
		r.Sample(map[string]interface{}{"scenario": "concurrent pushes", "objects": s.arg, "preemption_bound": s.bound, "executions": sum.Execs, "outcomes": sum.Outcomes})
		if len(sum.Outcomes) < 2 && sum.Execs > 10 {
			r.Note(fmt.Sprintf("schedule exploration of %+v produced a single outcome from %d executions", s.arg, sum.Execs))
		}
	}
	return total
}

func c08ReplaySched(c json.RawMessage) (string, bool) {
	var t schedTask
	if err := json.Unmarshal(c, &t); err != nil {
		return err.Error(), false
	}
	t.Single = true
	failed := false
	desc := ""
	runPoolPoison("sched", 1, [][]byte{mustJSON(t)}, func(i int, pr poolResult) {
		if pr.Crashed {
			failed, desc = true, "worker died: "+lastLines(pr.Stderr, 10)
			return
		}
		var o schedOut
		_ = json.Unmarshal(pr.Res, &o)
		if len(o.Viol) > 0 {
			failed, desc = true, o.Viol[0].Key+": "+o.Viol[0].Desc+" | schedule: "+strings.Join(o.Trace, " ")
		} else {
			desc = fmt.Sprint(o.Outcomes)
		}
	})
	return desc, failed
}

// ---------------------------------------------------------------------------
// E4: crash points

type c08CrashTask struct {
	Dir    string     `json:"dir"`
	Events []c08Event `json:"events"`
	K      int64      `json:"k"` // kill at the k-th point of the last event (0: count only)
}

// C08CrashChild is the child process: replays the history and dies at point k.
func c08CrashChild(raw string) {
	var t c08CrashTask
	if err := json.Unmarshal([]byte(raw), &t); err != nil {
		os.Exit(3)
	}
	useVirtualClock()
	im := &c08Impl{dir: t.Dir, objs: c08Objects()}
	if err := im.open(); err != nil {
		fmt.Println("OPENFAIL", err)
		os.Exit(4)
	}
	for i, e := range t.Events {
		if i == len(t.Events)-1 {
			vrt.ArmCrash(t.K, t.K == 0)
		}
		if err := im.apply(e); err != nil {
			fmt.Println("OPFAIL", err)
		}
	}
	n, labels := vrt.DisarmCrash()
	_ = im.store.Close()
	fmt.Printf("POINTS %d %s\n", n, strings.Join(labels, ","))
	os.Exit(0)
}

func init() {
	childMains["c08crash"] = c08CrashChild
	workers["c08verify"] = c08VerifyWorker
}

// c08VerifyWorker reopens a store left behind by a killed child and checks it.
func c08VerifyWorker(task []byte) []byte {
	var t c08CrashTask
	_ = json.Unmarshal(task, &t)
	res := c08Result{}
	defer func() { _ = os.RemoveAll(t.Dir) }()
	func() {
		defer func() {
			if r := recover(); r != nil {
				res.Key, res.Desc = "C08/crash-recovery-panic", fmt.Sprint(r)
			}
		}()
		useVirtualClock()
		im := &c08Impl{dir: t.Dir, objs: c08Objects()}
		if err := im.open(); err != nil {
			res.Key, res.Desc = "C08/store-does-not-reopen-after-kill", err.Error()
			return
		}
		defer im.store.Close()
		objs := im.objs
		before := newC08Ref()
		for _, e := range t.Events[:len(t.Events)-1] {
			before.apply(e, objs)
			if e.Op == "advance" {
				im.apply(e)
			}
		}
		after := newC08Ref()
		for _, e := range t.Events {
			after.apply(e, objs)
		}
		last := t.Events[len(t.Events)-1]
		kb, db := im.compare(before)
		ka, da := im.compare(after)
		res.Obs = "half"
		switch {
		case kb == "":
			res.Obs = "absent"
		case ka == "":
			res.Obs = "complete"
		default:
			res.Key = "C08/crash-leaves-half-done-state:" + last.Op
			res.Desc = fmt.Sprintf("killed at point %d of %v after %v: the store matches neither the state before the operation (%s) nor after it (%s)", t.K, last, t.Events[:len(t.Events)-1], db, da)
			return
		}
		// repeating the operation succeeds and yields the reference state
		if err := im.apply(last); err != nil {
			res.Key, res.Desc = "C08/repeat-after-crash-fails:"+last.Op, fmt.Sprintf("killed at point %d of %v; repeating it failed: %v", t.K, last, err)
			return
		}
		if k, d := im.compare(after); k != "" {
			res.Key, res.Desc = "C08/repeat-after-crash-wrong-state:"+last.Op, fmt.Sprintf("killed at point %d of %v; after repeating it: %s", t.K, last, d)
		}
	}()
	return mustJSON(res)
}

func runChild(kind string, arg interface{}) (stdout string, killed bool, err error) {
	exe := os.Getenv("VERIF_BIN")
	if exe == "" {
		exe, _ = os.Executable()
	}
	cmd := exec.Command(exe, "child", kind, string(mustJSON(arg)))
	out, err := cmd.Output()
	if ee, ok := err.(*exec.ExitError); ok {
		if ws, ok := ee.Sys().(syscall.WaitStatus); ok && ws.Signaled() && ws.Signal() == syscall.SIGKILL {
			return string(out), true, nil
		}
	}
	return string(out), false, err
}

var c08CrashSeq int
var c08CrashMu sync.Mutex

func c08Crash(r *ev.Run, thorough bool) (states, transitions int) {
	// histories: prefixes of <= P setup events followed by the operation under test
	pre := [][]c08Event{
		{},
		{{Op: "push", Obj: 0}},
		{{Op: "push", Obj: 2}},
		{{Op: "push", Obj: 2}, {Op: "push", Obj: 3}},
		{{Op: "push", Obj: 0}, {Op: "update", Obj: 0, Arg: 0}},
	}
	lasts := []c08Event{{Op: "push", Obj: 0}, {Op: "push", Obj: 1}, {Op: "push", Obj: 2}, {Op: "push", Obj: 4}, {Op: "push", Obj: 5},
		{Op: "delete", Obj: 0}, {Op: "delete", Obj: 2}, {Op: "update", Obj: 0, Arg: 2}, {Op: "update", Obj: 2, Arg: 0}}
	if !thorough {
		pre = pre[:3]
		lasts = []c08Event{{Op: "push", Obj: 0}, {Op: "push", Obj: 2}, {Op: "push", Obj: 5}, {Op: "delete", Obj: 0}, {Op: "delete", Obj: 2}, {Op: "update", Obj: 2, Arg: 0}}
	}
	if thorough {
		pre = append(pre, []c08Event{{Op: "push", Obj: 2}, {Op: "push", Obj: 5}, {Op: "push", Obj: 4}},
			[]c08Event{{Op: "push", Obj: 0}, {Op: "push", Obj: 1}, {Op: "push", Obj: 2}},
			[]c08Event{{Op: "push", Obj: 2}, {Op: "update", Obj: 2, Arg: 0}, {Op: "push", Obj: 3}})
		lasts = append(lasts, c08Event{Op: "sweep"}, c08Event{Op: "delete", Obj: 1}, c08Event{Op: "push", Obj: 3})
	}
	type hist struct{ events []c08Event }
	var hs []hist
	objs := c08Objects()
	for _, p := range pre {
		for _, l := range lasts {
			// skip operations that are no-ops in this state
			ref := newC08Ref()
			for _, e := range p {
				ref.apply(e, objs)
			}
			k0 := ref.key()
			ref.apply(l, objs)
			if ref.key() == k0 {
				continue
			}
			hs = append(hs, hist{append(append([]c08Event(nil), p...), l)})
		}
	}
	scratch := os.Getenv("VERIF_SCRATCH")
	var verify [][]byte
	var vt []c08CrashTask
	var mu sync.Mutex
	var wg sync.WaitGroup
	sem := make(chan struct{}, 16)
	nPoints := 0
	for hi, h := range hs {
		hi, h := hi, h
		wg.Add(1)
		sem <- struct{}{}
		go func() {
			defer wg.Done()
			defer func() { <-sem }()
			// count the points of the last operation
			dir := filepath.Join(scratch, fmt.Sprintf("c08c-%d-0", hi))
			out, killed, err := runChild("c08crash", c08CrashTask{Dir: dir, Events: h.events, K: 0})
			_ = os.RemoveAll(dir)
			if err != nil || killed || !strings.Contains(out, "POINTS") {
				r.Violation("C08/harness-crash-child", "none", fmt.Sprintf("%v %v %s", err, killed, out), nil)
				return
			}
			var n int
			var labels string
			for _, line := range strings.Split(out, "\n") {
				if strings.HasPrefix(line, "POINTS") {
					fmt.Sscanf(line, "POINTS %d %s", &n, &labels)
				}
			}
			mu.Lock()
			nPoints += n
			if hi%5 == 0 {
				r.Sample(map[string]interface{}{"crash_history": fmt.Sprint(h.events), "points_in_last_operation": n, "labels": labels})
			}
			mu.Unlock()
			for k := 1; k <= n; k++ {
				d := filepath.Join(scratch, fmt.Sprintf("c08c-%d-%d", hi, k))
				t := c08CrashTask{Dir: d, Events: h.events, K: int64(k)}
				_, killed, err := runChild("c08crash", t)
				if !killed {
					r.Violation("C08/harness-child-not-killed", "none", fmt.Sprintf("history %v point %d: %v", h.events, k, err), nil)
					_ = os.RemoveAll(d)
					continue
				}
				mu.Lock()
				verify = append(verify, mustJSON(t))
				vt = append(vt, t)
				mu.Unlock()
			}
		}()
	}
	wg.Wait()
	outs := map[string]int{}
	runPool("c08verify", 0, verify, func(i int, pr poolResult) {
		mu.Lock()
		defer mu.Unlock()
		if pr.Crashed {
			r.Violation("C08/reopen-after-kill-crashes", "crash", "process died while reopening/checking the store: "+lastLines(pr.Stderr, 10), vt[i])
			_ = os.RemoveAll(vt[i].Dir)
			return
		}
		var res c08Result
		_ = json.Unmarshal(pr.Res, &res)
		outs[res.Obs]++
		if res.Key != "" {
			r.Violation(res.Key, "crash", res.Desc, vt[i])
		}
	})
	r.Add("crash_histories", int64(len(hs)))
	r.Add("crash_points_killed", int64(len(verify)))
	for k, v := range outs {
		r.Add("crash_outcome_"+k, int64(v))
	}
	if len(verify) == 0 {
		r.Violation("C08/vacuous-crash", "none", "no crash point executed", nil)
	}
	return len(hs), len(verify)
}

func c08ReplayCrash(c json.RawMessage) (string, bool) {
	var t c08CrashTask
	if err := json.Unmarshal(c, &t); err != nil {
		return err.Error(), false
	}
	t.Dir = filepath.Join(os.Getenv("VERIF_SCRATCH"), "c08-replay")
	_ = os.RemoveAll(t.Dir)
	_, killed, err := runChild("c08crash", t)
	if !killed {
		return fmt.Sprintf("child was not killed at point %d (%v): the operation has fewer points now", t.K, err), false
	}
	var res c08Result
	_ = json.Unmarshal(c08VerifyWorker(mustJSON(t)), &res)
	return res.Key + ": " + res.Desc, res.Key != ""
}

var _ = gen.Payload
var _ storage.Store
