package checks

import (
	"bytes"
	"encoding/hex"
	"encoding/json"
	"fmt"
	"reflect"
	"strings"
	"sync/atomic"

	"github.com/dtn7/cboring"
	"github.com/dtn7/dtn7-go/pkg/agent"
	"github.com/dtn7/dtn7-go/pkg/bpv7"
	"github.com/dtn7/dtn7-go/pkg/cla"
	"github.com/dtn7/dtn7-go/pkg/cla/bbc"
	"github.com/dtn7/dtn7-go/pkg/cla/tcpclv4/vh"
	"github.com/dtn7/dtn7-go/pkg/discovery"
	"github.com/dtn7/dtn7-go/verif/ev"
	"github.com/dtn7/dtn7-go/verif/gen"
	"github.com/dtn7/dtn7-go/verif/par"
	"github.com/dtn7/dtn7-go/verif/ref"
)

func init() {
	All["C17"] = Check{Level: "exploration", Run: runC17, Replay: replayC17}
}

type c17Case struct {
	What string   `json:"what"`
	Msgs []vh.Msg `json:"msgs,omitempty"`
	Hex  string   `json:"hex,omitempty"`
	Text string   `json:"text,omitempty"`
}

var lens17 = []int{0, 1, 23, 24, 255, 256, 65535}

func bytesOf(n int) []byte { return gen.Payload(n, 11) }
func strOf(n int) string {
	b := make([]byte, n)
	for i := range b {
		b[i] = byte('a' + i%26)
	}
	return string(b)
}

// c17Alphabet: every message type with every field at 0, 1 and its maximum,
// node-id / data lengths on the width boundaries.
func c17Alphabet() []vh.Msg {
	var out []vh.Msg
	u16 := []uint64{0, 1, 65535}
	u64 := []uint64{0, 1, 1<<64 - 1}
	u8 := []uint64{0, 1, 255}
	for _, f := range u8 {
		out = append(out, vh.Msg{Kind: "contact", A: f})
	}
	for _, k := range u16 {
		for _, s := range u64 {
			for _, t := range u64 {
				for _, l := range lens17 {
					out = append(out, vh.Msg{Kind: "sess_init", A: k, B: s, C: t, S: strOf(l)})
				}
			}
		}
	}
	for _, f := range u8 {
		for c := uint64(0); c <= 5; c++ {
			out = append(out, vh.Msg{Kind: "sess_term", A: f, B: c})
		}
	}
	for _, f := range []uint64{0, 1, 2, 3, 255} {
		for _, t := range u64 {
			for _, l := range lens17 {
				out = append(out, vh.Msg{Kind: "xfer_segment", A: f, B: t, D: bytesOf(l)})
			}
			for _, a := range u64 {
				out = append(out, vh.Msg{Kind: "xfer_ack", A: f, B: t, C: a})
			}
		}
	}
	for c := uint64(0); c <= 6; c++ {
		for _, t := range u64 {
			out = append(out, vh.Msg{Kind: "xfer_refuse", A: c, B: t})
		}
	}
	out = append(out, vh.Msg{Kind: "keepalive"})
	for c := uint64(1); c <= 3; c++ {
		for _, h := range u8 {
			out = append(out, vh.Msg{Kind: "reject", A: c, B: h})
		}
	}
	return out
}

func c17Stream(ms []vh.Msg) (key, desc string) {
	var stream []byte
	var ends []int
	for _, m := range ms {
		e, err := vh.Encode(m)
		if err != nil {
			return "C17/tcpcl-encode-failed", fmt.Sprintf("%+v: %v", m, err)
		}
		stream = append(stream, e...)
		ends = append(ends, len(stream))
	}
	// the same stream read in pieces (a socket or a buffered reader hands a message out in several Read calls):
	// one octet at a time and seven at a time
	for _, chunk := range []int{1, 7} {
		cgot, cconsumed, cerr := vh.DecodeStreamChunked(stream, chunk)
		if cerr != nil {
			return "C17/tcpcl-own-encoding-rejected:chunked-read:" + ms[len(cgot)%len(ms)].Kind, fmt.Sprintf("stream of %d messages delivered %d octets per Read: message %d failed: %v", len(ms), chunk, len(cgot), cerr)
		}
		for i := range ms {
			if i >= len(cgot) || cconsumed[i] != ends[i] || !ms[i].Equal(cgot[i]) {
				return "C17/tcpcl-stream-misaligned:chunked-read:" + ms[i].Kind, fmt.Sprintf("stream delivered %d octets per Read: message %d (%s) is not read back as written", chunk, i, ms[i].Kind)
			}
		}
	}
	got, consumed, err := vh.DecodeStream(stream)
	if err != nil {
		return "C17/tcpcl-own-encoding-rejected:" + ms[len(got)%len(ms)].Kind, fmt.Sprintf("stream of %d messages: message %d failed: %v", len(ms), len(got), err)
	}
	if len(got) != len(ms) {
		return "C17/tcpcl-stream-misaligned", fmt.Sprintf("decoded %d messages from a stream of %d", len(got), len(ms))
	}
	for i := range ms {
		if consumed[i] != ends[i] {
			return "C17/tcpcl-stream-misaligned:" + ms[i].Kind, fmt.Sprintf("message %d (%s) consumed up to %d, encoder wrote up to %d", i, ms[i].Kind, consumed[i], ends[i])
		}
		if !ms[i].Equal(got[i]) {
			return "C17/tcpcl-roundtrip-differs:" + ms[i].Kind, fmt.Sprintf("message %d: sent %+v got %+v", i, short(ms[i]), short(got[i]))
		}
	}
	return "", ""
}

func short(m vh.Msg) vh.Msg {
	if len(m.D) > 16 {
		m.D = m.D[:16]
	}
	if len(m.S) > 16 {
		m.S = m.S[:16]
	}
	return m
}

// c17Codes: all 256 values of every one-byte code field.
func c17Codes(r *ev.Run) int64 {
	var n int64
	type field struct {
		name   string
		base   vh.Msg
		offset int
		valid  func(v int) bool
	}
	fields := []field{
		{"message-type", vh.Msg{Kind: "keepalive"}, 0, func(v int) bool { return v == 4 }},
		{"sess_term-reason", vh.Msg{Kind: "sess_term", A: 1, B: 1}, 2, func(v int) bool { return v <= 5 }},
		{"sess_term-flags", vh.Msg{Kind: "sess_term", A: 1, B: 1}, 1, func(v int) bool { return true }},
		{"xfer_refuse-reason", vh.Msg{Kind: "xfer_refuse", A: 1, B: 7}, 1, func(v int) bool { return v <= 6 }},
		{"reject-reason", vh.Msg{Kind: "reject", A: 1, B: 9}, 1, func(v int) bool { return v >= 1 && v <= 3 }},
		{"reject-header", vh.Msg{Kind: "reject", A: 1, B: 9}, 2, func(v int) bool { return true }},
		{"xfer_segment-flags", vh.Msg{Kind: "xfer_segment", A: 3, B: 7, D: []byte{1, 2}}, 1, func(v int) bool { return true }},
		{"xfer_ack-flags", vh.Msg{Kind: "xfer_ack", A: 3, B: 7, C: 9}, 1, func(v int) bool { return true }},
		{"contact-magic1", vh.Msg{Kind: "contact", A: 0}, 1, func(v int) bool { return v == 0x74 }},
		{"contact-magic2", vh.Msg{Kind: "contact", A: 0}, 2, func(v int) bool { return v == 0x6e }},
		{"contact-magic3", vh.Msg{Kind: "contact", A: 0}, 3, func(v int) bool { return v == 0x21 }},
		{"contact-version", vh.Msg{Kind: "contact", A: 0}, 4, func(v int) bool { return v == 4 }},
		{"contact-flags", vh.Msg{Kind: "contact", A: 0}, 5, func(v int) bool { return true }},
	}
	ka, _ := vh.Encode(vh.Msg{Kind: "keepalive"})
	for _, f := range fields {
		enc, err := vh.Encode(f.base)
		if err != nil {
			r.Violation("C17/harness-encode", "none", err.Error(), nil)
			continue
		}
		for v := 0; v < 256; v++ {
			n++
			m := append([]byte(nil), enc...)
			m[f.offset] = byte(v)
			m = append(m, ka...) // a following KEEPALIVE must still read
			got, consumed, derr := vh.DecodeStream(m)
			c := c17Case{What: f.name, Hex: hex.EncodeToString(m)}
			if f.name == "message-type" {
				// any other registered type reads a different message; only require: 4 accepted, unknown types rejected
				known := map[int]bool{1: true, 2: true, 3: true, 4: true, 5: true, 6: true, 7: true, 0x64: true}
				if !known[v] && derr == nil {
					r.Violation("C17/unknown-message-type-accepted", "codes", fmt.Sprintf("type byte %#x accepted", v), c)
				}
				if v == 4 && (derr != nil || len(got) != 2) {
					r.Violation("C17/keepalive-rejected", "codes", fmt.Sprint(derr), c)
				}
				continue
			}
			if f.valid(v) {
				if derr != nil || len(got) != 2 || consumed[0] != len(enc) || got[1].Kind != "keepalive" {
					r.Violation("C17/valid-code-rejected:"+f.name, "codes", fmt.Sprintf("%s=%#x: err %v, %d messages", f.name, v, derr, len(got)), c)
				}
			} else if derr == nil || len(got) > 0 {
				r.Violation("C17/invalid-code-accepted:"+f.name, "codes", fmt.Sprintf("%s=%#x accepted", f.name, v), c)
			}
		}
	}
	return n
}

// ---- CBOR formats: decode(encode(x)) == x and exact consumption ----

type cborThing interface {
	MarshalCbor(w interface{ Write([]byte) (int, error) }) error
}

func consumeExact(what string, enc []byte, dec func(r *bytes.Reader) error) (string, string) {
	// decode from a reader that holds the encoding followed by a sentinel; the sentinel must be left untouched
	data := append(append([]byte(nil), enc...), 0xAA, 0xBB)
	r := bytes.NewReader(data)
	if err := dec(r); err != nil {
		return "C17/own-encoding-rejected:" + what, err.Error()
	}
	if r.Len() != 2 {
		return "C17/consumption:" + what, fmt.Sprintf("decoder consumed %d bytes, encoder produced %d", len(data)-r.Len(), len(enc))
	}
	return "", ""
}

func runC17(r *ev.Run, thorough bool) int {
	useVirtualClock()
	gen.RegisterAll()
	var nEval, nDistinct int64
	report := func(k, d, kind string, c c17Case) {
		if k != "" {
			r.Violation(k, kind, d, c)
		}
	}
	// 1. TCPCLv4
	alpha := c17Alphabet()
	par.For(len(alpha), func(i int) {
		k, d := c17Stream([]vh.Msg{alpha[i]})
		atomic.AddInt64(&nEval, 1)
		report(k, d, "stream", c17Case{What: "tcpcl", Msgs: []vh.Msg{short(alpha[i])}})
	})
	nDistinct += int64(len(alpha))
	r.Add("tcpcl_message_values", int64(len(alpha)))
	// streams of <= 3 messages from a 14-message alphabet
	small := []vh.Msg{
		{Kind: "contact", A: 1}, {Kind: "sess_init", A: 30, B: 1 << 20, C: 1 << 30, S: "dtn://node/"}, {Kind: "sess_init", S: ""},
		{Kind: "sess_term", A: 1, B: 3}, {Kind: "xfer_segment", A: 3, B: 5, D: []byte("abc")}, {Kind: "xfer_segment", A: 0, B: 6}, {Kind: "xfer_segment", A: 1, B: 1<<64 - 1, D: bytesOf(300)},
		{Kind: "xfer_ack", A: 2, B: 5, C: 3}, {Kind: "xfer_refuse", A: 6, B: 5}, {Kind: "keepalive"}, {Kind: "reject", A: 2, B: 0x64},
		{Kind: "xfer_ack", A: 1, B: 0, C: 1<<64 - 1}, {Kind: "sess_term", A: 0, B: 0}, {Kind: "sess_init", A: 65535, B: 1<<64 - 1, C: 0, S: strOf(256)},
	}
	var streams [][]vh.Msg
	for a := range small {
		for b := range small {
			streams = append(streams, []vh.Msg{small[a], small[b]})
			for c := range small {
				streams = append(streams, []vh.Msg{small[a], small[b], small[c]})
			}
		}
	}
	par.For(len(streams), func(i int) {
		k, d := c17Stream(streams[i])
		atomic.AddInt64(&nEval, 1)
		var sm []vh.Msg
		for _, m := range streams[i] {
			sm = append(sm, short(m))
		}
		report(k, d, "stream", c17Case{What: "tcpcl-stream", Msgs: sm})
	})
	nDistinct += int64(len(streams))
	r.Add("tcpcl_streams", int64(len(streams)))
	r.Sample(c17Case{What: "tcpcl-stream", Msgs: streams[len(streams)/3]})
	nc := c17Codes(r)
	nEval += nc
	nDistinct += nc
	r.Add("tcpcl_code_field_values", nc)

	// 2. discovery announcements
	var nAnn int64
	eids := gen.EIDForms
	for t := 0; t < 256; t++ {
		for _, e := range []string{eids[0], eids[4]} {
			for _, port := range []uint{0, 1, 65535, 1 << 32} {
				nAnn++
				a := discovery.Announcement{Type: cla.CLAType(t), Endpoint: gen.MustEID(e), Port: port}
				valid := t == 0 || t == 1 || t == 10 || t == 20
				data, err := discovery.MarshalAnnouncements([]discovery.Announcement{a, a})
				if err != nil {
					r.Violation("C17/announcement-encode", "none", err.Error(), nil)
					continue
				}
				back, derr := discovery.UnmarshalAnnouncements(data)
				c := c17Case{What: "announcement", Hex: hex.EncodeToString(data)}
				if valid {
					if derr != nil || len(back) != 2 || !reflect.DeepEqual(back[0], a) || !reflect.DeepEqual(back[1], a) {
						r.Violation("C17/announcement-roundtrip", "announcement", fmt.Sprintf("type %d: %v %v", t, derr, back), c)
					}
				} else if derr == nil {
					r.Violation("C17/announcement-invalid-cla-type-accepted", "announcement", fmt.Sprintf("CLA type %d accepted", t), c)
				}
			}
		}
	}
	for n := 0; n <= 3; n++ {
		var as []discovery.Announcement
		for i := 0; i < n; i++ {
			as = append(as, discovery.Announcement{Type: []cla.CLAType{cla.MTCP, cla.TCPCLv4, cla.BBC}[i], Endpoint: gen.MustEID([]string{"dtn://n/", "dtn://n/x", "ipn:1.1"}[i]), Port: uint(i * 4000)})
		}
		data, _ := discovery.MarshalAnnouncements(as)
		back, derr := discovery.UnmarshalAnnouncements(data)
		nAnn++
		if derr != nil || len(back) != n || (n > 0 && !reflect.DeepEqual(back, as)) {
			r.Violation("C17/announcement-roundtrip", "announcement", fmt.Sprintf("list of %d: %v", n, derr), c17Case{What: "announcement", Hex: hex.EncodeToString(data)})
		}
	}
	nEval += nAnn
	nDistinct += nAnn
	r.Add("announcements", nAnn)

	// 3. WebSocket agent messages
	var nWam int64
	bndl := gen.Spec{Dst: "dtn://d/", Src: "dtn://s/", Rpt: "dtn://s/", PCRC: 2, Time: DtnNow(), Lifetime: 60000, PayLen: 30}.Build()
	var wams []agent.VerifWam
	for _, l := range lens17 {
		for _, code := range []uint64{0, 1, 3} {
			wams = append(wams, agent.VerifWam{Code: code, Text: strOf(l)})
		}
		for _, l2 := range lens17 {
			wams = append(wams, agent.VerifWam{Code: 4, Text: strOf(l), Bytes: bytesOf(l2)})
		}
	}
	wams = append(wams, agent.VerifWam{Code: 2, Bundle: &bndl})
	for i, a := range wams {
		for _, b := range []agent.VerifWam{wams[(i*7+1)%len(wams)], wams[len(wams)-1]} {
			nWam++
			ea, err1 := agent.VerifWamEncode(a)
			eb, err2 := agent.VerifWamEncode(b)
			if err1 != nil || err2 != nil {
				r.Violation("C17/wam-encode", "none", fmt.Sprint(err1, err2), nil)
				continue
			}
			stream := append(append([]byte(nil), ea...), eb...)
			c := c17Case{What: "wam", Hex: hex.EncodeToString(trunc17(stream))}
			ga, n1, derr := agent.VerifWamDecode(stream)
			if derr != nil {
				r.Violation("C17/wam-own-encoding-rejected", "wam", derr.Error(), c)
				continue
			}
			if n1 != len(ea) {
				r.Violation("C17/consumption:wam", "wam", fmt.Sprintf("code %d consumed %d of %d", a.Code, n1, len(ea)), c)
				continue
			}
			gb, n2, derr := agent.VerifWamDecode(stream[n1:])
			if derr != nil || n2 != len(eb) {
				r.Violation("C17/wam-stream-misaligned", "wam", fmt.Sprint(derr, n2, len(eb)), c)
				continue
			}
			if !wamEq(a, ga) || !wamEq(b, gb) {
				r.Violation("C17/wam-roundtrip-differs", "wam", fmt.Sprintf("code %d/%d", a.Code, b.Code), c)
			}
		}
	}
	for code := uint64(0); code < 256; code++ {
		nWam++
		e := &ref.Enc{}
		e.Array(2)
		e.UInt(code)
		e.Text("x")
		_, _, derr := agent.VerifWamDecode(e.B)
		if code > 4 && derr == nil {
			r.Violation("C17/wam-unknown-type-accepted", "wam", fmt.Sprintf("type code %d accepted", code), c17Case{What: "wam", Hex: hex.EncodeToString(e.B)})
		}
	}
	nEval += nWam
	nDistinct += nWam
	r.Add("wam_cases", nWam)

	// 4. BBC fragment headers: all 2^16 headers x 3 payload lengths
	var nBBC int64
	par.For(256, func(tid int) {
		for id := 0; id < 256; id++ {
			for _, pl := range [][]byte{nil, {0x55}, bytesOf(5)} {
				atomic.AddInt64(&nBBC, 1)
				raw := append([]byte{byte(tid), byte(id)}, pl...)
				f, err := bbc.ParseFragment(raw)
				c := c17Case{What: "bbc", Hex: hex.EncodeToString(raw)}
				if err != nil {
					r.Violation("C17/bbc-header-rejected", "bbc", err.Error(), c)
					continue
				}
				if !bytes.Equal(f.Bytes(), raw) {
					r.Violation("C17/bbc-roundtrip-differs", "bbc", fmt.Sprintf("%x vs %x", f.Bytes(), raw), c)
				}
				g := bbc.NewFragment(f.TransmissionID(), f.SequenceNumber(), f.StartBit(), f.EndBit(), f.FailBit(), f.Payload)
				if !bytes.Equal(g.Bytes(), raw) {
					r.Violation("C17/bbc-accessors-inconsistent", "bbc", fmt.Sprintf("rebuilt %x vs %x", g.Bytes(), raw), c)
				}
				if int(f.TransmissionID()) != tid || int(f.SequenceNumber()) != id>>3 || f.StartBit() != (id&4 != 0) || f.EndBit() != (id&2 != 0) || f.FailBit() != (id&1 != 0) {
					r.Violation("C17/bbc-bit-layout", "bbc", f.String(), c)
				}
			}
		}
	})
	nEval += nBBC
	nDistinct += nBBC
	r.Add("bbc_headers", nBBC)

	// 5. bundle IDs, creation timestamps, status reports / administrative records
	var nAdm int64
	for _, e := range []string{"dtn://n/", "dtn:none", "dtn://n/x", "ipn:1.1", "ipn:23.42"} {
		for _, tv := range gen.U64Bounds {
			for _, sq := range []uint64{0, 24, 1 << 32} {
				for _, frag := range []bool{false, true} {
					nAdm++
					bid := bpv7.BundleID{SourceNode: gen.MustEID(e), Timestamp: bpv7.NewCreationTimestamp(bpv7.DtnTime(tv), sq), IsFragment: frag}
					if frag {
						bid.FragmentOffset, bid.TotalDataLength = tv, sq+1
					}
					var buf bytes.Buffer
					if err := cboring.Marshal(&bid, &buf); err != nil {
						r.Violation("C17/bundleid-encode", "none", err.Error(), nil)
						continue
					}
					back := bpv7.BundleID{IsFragment: frag}
					k, d := consumeExact("bundle-id", buf.Bytes(), func(rd *bytes.Reader) error { return cboring.Unmarshal(&back, rd) })
					if k == "" && back != bid {
						k, d = "C17/roundtrip-differs:bundle-id", fmt.Sprintf("%v vs %v", back, bid)
					}
					report(k, d, "cbor", c17Case{What: "bundle-id", Hex: hex.EncodeToString(buf.Bytes())})
					ct := bid.Timestamp
					buf.Reset()
					_ = cboring.Marshal(&ct, &buf)
					var ct2 bpv7.CreationTimestamp
					k, d = consumeExact("creation-timestamp", buf.Bytes(), func(rd *bytes.Reader) error { return cboring.Unmarshal(&ct2, rd) })
					if k == "" && ct2 != ct {
						k, d = "C17/roundtrip-differs:creation-timestamp", fmt.Sprint(ct, ct2)
					}
					report(k, d, "cbor", c17Case{What: "creation-timestamp", Hex: hex.EncodeToString(buf.Bytes())})
				}
			}
		}
	}
	// status reports: all status-item combinations (asserted x with-time) x fragment/whole x reasons
	for mask := 0; mask < 81; mask++ { // 3 states per item: not asserted, asserted, asserted with time
		for _, frag := range []bool{false, true} {
			for ri, reason := range []uint64{0, 1, 11, 23, 24, 255, 256} {
				// reported times at the boundaries of the field: 0 (the epoch itself), 1, 256+i, 2^32, 2^64-1
				tbase := []uint64{256, 0, 1, 1 << 32, 1<<64 - 5, 23, 24}[ri]
				nAdm++
				sr := bpv7.StatusReport{ReportReason: bpv7.StatusReportReason(reason),
					RefBundle: bpv7.BundleID{SourceNode: gen.MustEID("dtn://src/"), Timestamp: bpv7.NewCreationTimestamp(1000, 7), IsFragment: frag}}
				if frag {
					sr.RefBundle.FragmentOffset, sr.RefBundle.TotalDataLength = 24, 65536
				}
				m := mask
				for i := 0; i < 4; i++ {
					switch m % 3 {
					case 0:
						sr.StatusInformation = append(sr.StatusInformation, bpv7.NewBundleStatusItem(false))
					case 1:
						sr.StatusInformation = append(sr.StatusInformation, bpv7.NewBundleStatusItem(true))
					case 2:
						sr.StatusInformation = append(sr.StatusInformation, bpv7.NewTimeReportingBundleStatusItem(bpv7.DtnTime(tbase+uint64(i))))
					}
					m /= 3
				}
				var buf bytes.Buffer
				if err := bpv7.GetAdministrativeRecordManager().WriteAdministrativeRecord(&sr, &buf); err != nil {
					r.Violation("C17/status-report-encode", "none", err.Error(), nil)
					continue
				}
				var got bpv7.AdministrativeRecord
				k, d := consumeExact("status-report", buf.Bytes(), func(rd *bytes.Reader) (err error) {
					got, err = bpv7.GetAdministrativeRecordManager().ReadAdministrativeRecord(rd)
					return
				})
				if k == "" {
					g, ok := got.(*bpv7.StatusReport)
					if !ok || !reflect.DeepEqual(*g, sr) {
						k, d = "C17/roundtrip-differs:status-report", fmt.Sprintf("%v vs %v", got, sr)
					}
				}
				report(k, d, "cbor", c17Case{What: "status-report", Hex: hex.EncodeToString(buf.Bytes())})
			}
		}
	}
	// unknown administrative record type codes are rejected
	for code := uint64(0); code < 256; code++ {
		nAdm++
		e := &ref.Enc{}
		e.Array(2)
		e.UInt(code)
		e.Array(4)
		_, err := bpv7.NewAdministrativeRecordFromCbor(e.B)
		if code != 1 && err == nil {
			r.Violation("C17/unknown-admin-record-type-accepted", "cbor", fmt.Sprintf("record type %d accepted", code), c17Case{What: "admin-record", Hex: hex.EncodeToString(e.B)})
		}
	}
	nEval += nAdm
	nDistinct += nAdm
	r.Add("ids_timestamps_reports", nAdm)

	// 6. endpoint IDs: all strings up to length L over the grammar alphabet
	L := 6
	if thorough {
		L = 7
	}
	alphabet := []byte("dtnip:/.~a01_")
	var nStr, nAccepted int64
	firsts := len(alphabet) * len(alphabet)
	par.For(firsts, func(fi int) {
		buf := make([]byte, 0, L)
		var rec func(b []byte)
		var local, acc int64
		rec = func(b []byte) {
			if len(b) >= 2 {
				local++
				if k, d, a := c17Endpoint(string(b)); k != "" {
					r.Violation(k, "endpoint", d, c17Case{What: "endpoint", Text: string(b)})
				} else if a {
					acc++
				}
			}
			if len(b) == L {
				return
			}
			for _, ch := range alphabet {
				rec(append(b, ch))
			}
		}
		rec(append(buf, alphabet[fi/len(alphabet)], alphabet[fi%len(alphabet)]))
		atomic.AddInt64(&nStr, local)
		atomic.AddInt64(&nAccepted, acc)
	})
	// structure -> text -> structure: every ipn endpoint over the width boundaries and a set of dtn endpoints
	var structs []bpv7.EndpointID
	for _, n := range gen.U64Bounds {
		for _, sv := range gen.U64Bounds {
			if n >= 1 && sv >= 1 {
				structs = append(structs, bpv7.EndpointID{EndpointType: bpv7.IpnEndpoint{Node: n, Service: sv}})
			}
		}
	}
	for _, n := range []uint64{9, 10, 99, 100, 9999999999999999999, 10000000000000000000} {
		structs = append(structs, bpv7.EndpointID{EndpointType: bpv7.IpnEndpoint{Node: n, Service: n}})
	}
	structs = append(structs, bpv7.DtnNone())
	for _, node := range []string{"n", "a-b", "a.b", "a_b", "N0", strOf(64)} {
		for _, dm := range []string{"", "x", "~g", "a/b/c", "~", "0"} {
			structs = append(structs, bpv7.EndpointID{EndpointType: bpv7.DtnEndpoint{NodeName: node, Demux: dm}})
		}
	}
	for _, e := range structs {
		nStr++
		if e.CheckValid() != nil {
			continue
		}
		txt := e.String()
		back, err := bpv7.NewEndpointID(txt)
		if err != nil {
			r.Violation("C17/endpoint-own-text-rejected:"+e.EndpointType.SchemeName(), "endpoint", fmt.Sprintf("valid endpoint prints as %q, which NewEndpointID rejects: %v", txt, err), c17Case{What: "endpoint-struct", Text: txt})
		} else if back != e {
			r.Violation("C17/endpoint-text-to-other-structure", "endpoint", fmt.Sprintf("%q parses to %v", txt, back), c17Case{What: "endpoint-struct", Text: txt})
		} else {
			nAccepted++
		}
	}
	// longer near-misses and boundary values
	extra := []string{"dtn:none", "dtn://n/", "dtn://node/demux/x", "dtn://n/~grp", "dtn:/n/", "dtn:n/", "dtn//n/", "dtn://n", "dtn:// n/", "dtn://n/\n", "dtn://n/x\n",
		"ipn:1.1", "ipn:01.1", "ipn:1.01", "ipn:0.1", "ipn:1.0", "ipn:+1.1", "ipn:1.1 ", " ipn:1.1", "ipn:1.1.1", "ipn:1", "ipn:.1", "ipn:1.", "ipn:18446744073709551615.18446744073709551615",
		"ipn:18446744073709551616.1", "ipn:1.18446744073709551616", "ipn:00000000000000000001.1", "DTN://n/", "dtn:NONE", "dtn:none/", "dtn:nonex", "ipn:１.1", "dtn://ä/", "xyz:abc", ":", "dtn:", "ipn:", "dtn://n/#frag", "dtn://n/?q"}
	for _, s := range extra {
		nStr++
		if k, d, a := c17Endpoint(s); k != "" {
			r.Violation(k, "endpoint", d, c17Case{What: "endpoint", Text: s})
		} else if a {
			nAccepted++
		}
	}
	// every single-character insertion, deletion and substitution in a set of valid URIs (text form), and the same
	// edits of the scheme-specific part inside the CBOR form [1, ssp]
	edits := map[string]bool{}
	editChars := []byte("x/:^.~0 \n#")
	for _, base := range []string{"dtn://foo/bar", "dtn://n/", "dtn:none", "dtn://a.b/~g/x", "ipn:12.34"} {
		for pos := 0; pos <= len(base); pos++ {
			for _, ch := range editChars {
				edits[base[:pos]+string(ch)+base[pos:]] = true
				if pos < len(base) {
					edits[base[:pos]+string(ch)+base[pos+1:]] = true
				}
			}
			if pos < len(base) {
				edits[base[:pos]+base[pos+1:]] = true
			}
		}
	}
	for sText := range edits {
		nStr++
		if k, d, a := c17Endpoint(sText); k != "" {
			r.Violation(k, "endpoint", d, c17Case{What: "endpoint", Text: sText})
		} else if a {
			nAccepted++
		}
		if !strings.HasPrefix(sText, "dtn:") {
			continue
		}
		e := &ref.Enc{}
		e.Array(2)
		e.UInt(1)
		e.Text(sText[4:])
		var eid bpv7.EndpointID
		if derr := func() (err error) {
			defer func() {
				if p := recover(); p != nil {
					err = fmt.Errorf("panic: %v", p)
				}
			}()
			return cboring.Unmarshal(&eid, bytes.NewReader(e.B))
		}(); derr == nil {
			var back bytes.Buffer
			if merr := cboring.Marshal(&eid, &back); merr != nil || !bytes.Equal(back.Bytes(), e.B) {
				r.Violation("C17/endpoint-cbor-not-unique", "endpoint", fmt.Sprintf("the CBOR endpoint [1, %q] is accepted as %v, which encodes to other octets (%x): two encodings for one endpoint", sText[4:], eid, back.Bytes()), c17Case{What: "endpoint-cbor", Text: sText, Hex: hex.EncodeToString(e.B)})
			}
		}
	}
	nEval += nStr
	nDistinct += nStr
	r.Add("endpoint_strings", nStr)
	r.Add("endpoint_strings_accepted", nAccepted)
	r.Sample(c17Case{What: "endpoint", Text: "ipn:01.1"})
	if nAccepted == 0 {
		r.Violation("C17/vacuous", "none", "no endpoint string accepted", nil)
	}
	return r.Finish(map[string]interface{}{
		"evaluations":         nEval,
		"distinct_nontrivial": nDistinct,
		"rule":                fmt.Sprintf("TCPCLv4: %d message values (every field at 0/1/max, lengths 0,1,23,24,255,256,65535), %d streams of 2-3 messages from a 14-message alphabet (exact consumption per message), all 256 values of each of 13 one-byte fields (the first magic byte doubles as the message type and is covered there); discovery: all 256 CLA type codes x endpoints x ports and lists of 0..3; WebSocket-agent: every message type x string/byte lengths, pairs on one stream, all 256 type codes; BBC: all 65536 headers x 3 payload lengths; bundle IDs / creation timestamps over width boundaries; all 81 status-item combinations x fragment/whole x reason codes, all 256 administrative record type codes; endpoint URIs: every string of length 2..%d over the alphabet %q plus %d near-misses. Every enumerated value is distinct; all are non-trivial (each is encoded/decoded or parsed and compared)", len(alpha), len(streams), L, string(alphabet), len(extra)),
	}, []string{"'unknown reason codes are rejected' is applied to the TCPCLv4 one-byte code fields (closed sets in the code), not to the CBOR status-report reason, which has no closed set"})
}

func trunc17(b []byte) []byte {
	if len(b) > 64 {
		return b[:64]
	}
	return b
}

func wamEq(a, b agent.VerifWam) bool {
	if a.Code != b.Code || a.Text != b.Text || !bytes.Equal(a.Bytes, b.Bytes) {
		return false
	}
	if (a.Bundle == nil) != (b.Bundle == nil) {
		return false
	}
	if a.Bundle != nil {
		return len(gen.DiffBundles(*a.Bundle, *b.Bundle)) == 0
	}
	return true
}

// c17Endpoint: accepted => String() returns the input, re-parse equal, CBOR
// round trip equal and consumed exactly, CheckValid ok.
func c17Endpoint(s string) (key, desc string, accepted bool) {
	defer func() {
		if r := recover(); r != nil {
			key, desc = "C17/endpoint-panic", fmt.Sprintf("NewEndpointID(%q) panicked: %v", s, r)
		}
	}()
	e, err := bpv7.NewEndpointID(s)
	if err != nil {
		return "", "", false
	}
	accepted = true
	if got := e.String(); got != s {
		return "C17/endpoint-text-not-unique:" + e.EndpointType.SchemeName(), fmt.Sprintf("%q is accepted and prints as %q: two texts for one endpoint", s, got), true
	}
	if err := e.CheckValid(); err != nil {
		return "C17/endpoint-accepted-but-invalid", fmt.Sprintf("%q: %v", s, err), true
	}
	e2, err := bpv7.NewEndpointID(e.String())
	if err != nil || e2 != e {
		return "C17/endpoint-reparse-differs", fmt.Sprintf("%q: %v", s, err), true
	}
	var buf bytes.Buffer
	if err := cboring.Marshal(&e, &buf); err != nil {
		return "C17/endpoint-cbor-encode", fmt.Sprintf("%q: %v", s, err), true
	}
	var e3 bpv7.EndpointID
	k, d := consumeExact("endpoint", buf.Bytes(), func(rd *bytes.Reader) error { return cboring.Unmarshal(&e3, rd) })
	if k != "" {
		return k, d, true
	}
	if e3 != e {
		return "C17/endpoint-cbor-roundtrip-differs", fmt.Sprintf("%q -> %v", s, e3), true
	}
	return "", "", true
}

func replayC17(kind string, c json.RawMessage) (string, bool) {
	useVirtualClock()
	gen.RegisterAll()
	var cs c17Case
	if err := json.Unmarshal(c, &cs); err != nil {
		return err.Error(), false
	}
	switch kind {
	case "endpoint":
		k, d, _ := c17Endpoint(cs.Text)
		return k + ": " + d, k != ""
	case "stream":
		k, d := c17Stream(cs.Msgs)
		return k + ": " + d, k != ""
	}
	return "replay of kind " + kind + ": re-run the check (cases are enumerated deterministically)", false
}
