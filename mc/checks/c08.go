package checks

import (
	"bytes"
	"encoding/json"
	"fmt"
	"os"
	"path/filepath"
	"sort"
	"strings"
	"sync"
	"time"

	"github.com/dtn7/dtn7-go/pkg/bpv7"
	"github.com/dtn7/dtn7-go/pkg/storage"
	"github.com/dtn7/dtn7-go/verif/ev"
	"github.com/dtn7/dtn7-go/verif/gen"
	"github.com/dtn7/dtn7-go/verif/vtime"
)

func init() {
	All["C08"] = Check{Level: "model_checking", Run: runC08, Replay: replayC08}
	workers["c08"] = c08Worker
}

// ---- the bundles of the alphabet ----

// objects: 0 = bundle A (whole), 1 = bundle B (whole, short lifetime), 2.. = fragments of bundle C
type c08Obj struct {
	name string
	b    bpv7.Bundle
	id   int // 0 A, 1 B, 2 C
	lo   int // fragment range in C's payload (whole bundles: 0..len)
	hi   int
}

const c08CLen = 12

func c08Objects() []c08Obj {
	now := DtnNow()
	a := gen.Spec{Dst: "dtn://dst/", Src: "dtn://a/", Rpt: "dtn://a/", PCRC: 2, Time: now, Seq: 1, Lifetime: 3600000, PayLen: 5, PaySeed: 1}.Build()
	b := gen.Spec{Dst: "dtn://dst/", Src: "dtn://b/", Rpt: "dtn://b/", PCRC: 1, Time: now, Seq: 2, Lifetime: 60000, PayLen: 300, PaySeed: 2,
		Ext: []gen.BSpec{{Kind: "hop", N: []uint64{10, 1}}}}.Build()
	objs := []c08Obj{{"A", a, 0, 0, 5}, {"B", b, 1, 0, 300}}
	frag := func(lo, hi int) c08Obj {
		s := gen.Spec{Dst: "dtn://dst/", Src: "dtn://c/", Rpt: "dtn://c/", PCRC: 2, Time: now, Seq: 3, Lifetime: 7200000,
			Flags: 1, FragOff: uint64(lo), Total: c08CLen, PayLen: hi - lo, PaySeed: byte(3 + lo*7)}
		if lo == 0 {
			s.Ext = []gen.BSpec{{Kind: "age", N: []uint64{0}, Flags: 1}}
		} else {
			s.Ext = []gen.BSpec{{Kind: "age", N: []uint64{0}, Flags: 1}}
		}
		return c08Obj{fmt.Sprintf("C[%d,%d)", lo, hi), s.Build(), 2, lo, hi}
	}
	// the last one starts where C[0,4) starts but is longer (two fragmentations with different size limits)
	objs = append(objs, frag(0, 4), frag(4, 8), frag(8, 12), frag(2, 10), frag(0, 6))
	return objs
}

// ---- events ----

type c08Event struct {
	Op  string `json:"op"`            // push update delete advance sweep reopen
	Obj int    `json:"obj,omitempty"` // push: object index; update/delete: bundle id 0..2
	Arg int    `json:"arg,omitempty"` // update: 0 pending=true 1 pending=false 2 set property 3 expiry := now-1s ; advance: seconds
}

func (e c08Event) String() string {
	switch e.Op {
	case "push":
		return "push(" + c08Objects()[e.Obj].name + ")"
	case "update":
		return fmt.Sprintf("update(%c,%s)", 'A'+e.Obj, []string{"pending", "not-pending", "property", "expire-now"}[e.Arg])
	case "delete":
		return fmt.Sprintf("delete(%c)", 'A'+e.Obj)
	case "stale-update":
		return fmt.Sprintf("query(%c);delete(%c);update(%c,pending) with the queried copy", 'A'+e.Obj, 'A'+e.Obj, 'A'+e.Obj)
	case "advance":
		return fmt.Sprintf("advance(%ds)", e.Arg)
	}
	return e.Op
}

func c08Alphabet() []c08Event {
	var out []c08Event
	for i := range c08Objects() {
		out = append(out, c08Event{Op: "push", Obj: i})
	}
	for id := 0; id < 3; id++ {
		for a := 0; a < 4; a++ {
			out = append(out, c08Event{Op: "update", Obj: id, Arg: a})
		}
		out = append(out, c08Event{Op: "delete", Obj: id})
	}
	// query-then-update, the pattern of the routing layer, with a deletion in between: the update of a record that
	// no longer exists must not bring it back
	out = append(out, c08Event{Op: "stale-update", Obj: 0}, c08Event{Op: "stale-update", Obj: 2})
	out = append(out, c08Event{Op: "advance", Arg: 61}, c08Event{Op: "advance", Arg: 3600}, c08Event{Op: "sweep"}, c08Event{Op: "reopen"})
	return out
}

// ---- reference model ----

type c08Rec struct {
	Parts   []int // object indices, in insertion order
	Pending bool
	Prop    bool
	Expires int64 // unix ms
	Frag    bool
}

type c08Ref struct {
	Recs map[int]*c08Rec
	Now  int64 // unix ms
}

func newC08Ref() *c08Ref { return &c08Ref{Recs: map[int]*c08Rec{}, Now: VNow.UnixNano() / 1e6} }

func (r *c08Ref) key() string {
	var ks []string
	for id, rec := range r.Recs {
		ks = append(ks, fmt.Sprintf("%d:%v/%v/%v/%v", id, rec.Parts, rec.Pending, rec.Prop, rec.Expires-r.Now > 0))
	}
	sort.Strings(ks)
	// clock: only the ordering relative to the expiry instants matters
	var rel []string
	for _, o := range []int64{60000, 3600000, 7200000} {
		rel = append(rel, fmt.Sprint(r.Now-VNow.UnixNano()/1e6 > o))
	}
	return strings.Join(ks, ";") + "|" + strings.Join(rel, ",")
}

func expiryOf(o c08Obj) int64 {
	return int64(o.b.PrimaryBlock.CreationTimestamp.DtnTime()) + 946684800000 + int64(o.b.PrimaryBlock.Lifetime)
}

func (r *c08Ref) apply(e c08Event, objs []c08Obj) {
	switch e.Op {
	case "push":
		o := objs[e.Obj]
		rec, ok := r.Recs[o.id]
		if !ok {
			r.Recs[o.id] = &c08Rec{Parts: []int{e.Obj}, Expires: expiryOf(o), Frag: o.id == 2}
			return
		}
		if !rec.Frag {
			return
		}
		for _, p := range rec.Parts {
			if p == e.Obj {
				return
			}
		}
		rec.Parts = append(rec.Parts, e.Obj)
	case "update":
		rec, ok := r.Recs[e.Obj]
		if !ok {
			return
		}
		switch e.Arg {
		case 0:
			rec.Pending = true
		case 1:
			rec.Pending = false
		case 2:
			rec.Prop = true
		case 3:
			rec.Expires = r.Now - 1000
		}
	case "delete", "stale-update":
		delete(r.Recs, e.Obj)
	case "advance":
		r.Now += int64(e.Arg) * 1000
	case "sweep":
		for id, rec := range r.Recs {
			if rec.Expires < r.Now {
				delete(r.Recs, id)
			}
		}
	}
}

func (r *c08Ref) complete(id int, objs []c08Obj) bool {
	rec := r.Recs[id]
	if rec == nil {
		return false
	}
	if !rec.Frag {
		return true
	}
	cov := make([]bool, c08CLen)
	for _, p := range rec.Parts {
		for i := objs[p].lo; i < objs[p].hi; i++ {
			cov[i] = true
		}
	}
	for _, c := range cov {
		if !c {
			return false
		}
	}
	return true
}

// ---- implementation driver ----

type c08Impl struct {
	dir   string
	store *storage.Store
	objs  []c08Obj
}

func (im *c08Impl) open() error {
	s, err := storage.NewStore(im.dir)
	im.store = s
	return err
}

func (im *c08Impl) bid(id int) bpv7.BundleID {
	for _, o := range im.objs {
		if o.id == id {
			return o.b.ID().Scrub()
		}
	}
	panic("bad id")
}

func (im *c08Impl) apply(e c08Event) error {
	switch e.Op {
	case "push":
		return im.store.Push(im.objs[e.Obj].b)
	case "update":
		bi, err := im.store.QueryId(im.bid(e.Obj))
		if err != nil {
			return nil // unknown record: nothing to update
		}
		switch e.Arg {
		case 0:
			bi.Pending = true
		case 1:
			bi.Pending = false
		case 2:
			bi.Properties["verif/prop"] = "value"
		case 3:
			bi.Expires = vtime.Now().Add(-time.Second)
		}
		return im.store.Update(bi)
	case "delete":
		return im.store.Delete(im.bid(e.Obj))
	case "stale-update":
		bi, err := im.store.QueryId(im.bid(e.Obj))
		if err != nil {
			return nil
		}
		if derr := im.store.Delete(im.bid(e.Obj)); derr != nil {
			return derr
		}
		bi.Pending = true
		_ = im.store.Update(bi) // must fail or have no effect: the comparison with the reference decides
		return nil
	case "advance":
		vtime.Advance(time.Duration(e.Arg) * time.Second)
	case "sweep":
		im.store.DeleteExpired()
	case "reopen":
		if err := im.store.Close(); err != nil {
			return err
		}
		return im.open()
	}
	return nil
}

// compare checks every query against the reference; returns "" or a violation.
func (im *c08Impl) compare(ref *c08Ref) (key, desc string) {
	var wantPending []string
	for id := 0; id < 3; id++ {
		rec := ref.Recs[id]
		bid := im.bid(id)
		knows := im.store.KnowsBundle(bid)
		bi, err := im.store.QueryId(bid)
		if rec == nil {
			if knows || err == nil {
				return "C08/deleted-record-still-found", fmt.Sprintf("record %c is gone in the reference but KnowsBundle=%v QueryId err=%v", 'A'+id, knows, err)
			}
			continue
		}
		if !knows || err != nil {
			return "C08/record-lost", fmt.Sprintf("record %c must exist: KnowsBundle=%v QueryId err=%v", 'A'+id, knows, err)
		}
		if rec.Pending {
			wantPending = append(wantPending, bi.Id)
		}
		if bi.Pending != rec.Pending {
			return "C08/pending-flag", fmt.Sprintf("record %c pending=%v, reference %v", 'A'+id, bi.Pending, rec.Pending)
		}
		if _, has := bi.Properties["verif/prop"]; has != rec.Prop {
			return "C08/property-lost", fmt.Sprintf("record %c property present=%v, reference %v", 'A'+id, has, rec.Prop)
		}
		if got := bi.Expires.UnixNano() / 1e6; got != rec.Expires {
			return "C08/expiry", fmt.Sprintf("record %c expires %d, reference %d", 'A'+id, got, rec.Expires)
		}
		if len(bi.Parts) != len(rec.Parts) {
			return "C08/parts-count", fmt.Sprintf("record %c has %d parts, reference %d (%v)", 'A'+id, len(bi.Parts), len(rec.Parts), rec.Parts)
		}
		// a bundle whose lifetime has run out cannot be parsed back (the parser validates the lifetime):
		// read-back is required for records "not since expired" only
		if expiryOf(im.objs[rec.Parts[0]]) < ref.Now {
			continue
		}
		// every part reads back byte-identical to one distinct pushed object
		used := map[int]bool{}
		for _, part := range bi.Parts {
			pb, err := part.Load()
			if err != nil {
				return "C08/part-unreadable", fmt.Sprintf("record %c part %s: %v", 'A'+id, filepath.Base(part.Filename), err)
			}
			ps, _ := gen.Ser(&pb)
			found := false
			for _, oi := range rec.Parts {
				os_, _ := gen.Ser(&im.objs[oi].b)
				if !used[oi] && bytes.Equal(ps, os_) {
					used[oi] = true
					found = true
					break
				}
			}
			if !found {
				return "C08/part-differs", fmt.Sprintf("record %c holds a part that is not byte-identical to a distinct pushed bundle", 'A'+id)
			}
		}
		wantComplete := ref.complete(id, im.objs)
		if got := bi.IsComplete(); got != wantComplete {
			return "C08/completeness", fmt.Sprintf("record %c IsComplete=%v, reference %v (parts %v)", 'A'+id, got, wantComplete, rec.Parts)
		}
		if wantComplete && rec.Frag {
			lb, err := bi.Load()
			if err != nil {
				return "C08/complete-but-load-fails", fmt.Sprintf("record %c: %v", 'A'+id, err)
			}
			if got := payloadOf(&lb); len(got) != c08CLen {
				return "C08/reassembled-length", fmt.Sprintf("record %c reassembles to %d bytes", 'A'+id, len(got))
			}
		}
	}
	bis, err := im.store.QueryPending()
	if err != nil {
		return "C08/query-pending-failed", err.Error()
	}
	var gotPending []string
	for _, bi := range bis {
		gotPending = append(gotPending, bi.Id)
	}
	sort.Strings(gotPending)
	sort.Strings(wantPending)
	if fmt.Sprint(gotPending) != fmt.Sprint(wantPending) {
		return "C08/pending-query", fmt.Sprintf("QueryPending returned %v, reference %v", gotPending, wantPending)
	}
	return "", ""
}

type c08Task struct {
	Events []c08Event `json:"events"`
}

type c08Result struct {
	Key  string `json:"key,omitempty"`
	Desc string `json:"desc,omitempty"`
	Obs  string `json:"obs"`
}

var c08DirSeq int

// c08Shared is the store instance a worker reuses between histories; it is
// reused only if it is verifiably empty (no record of the alphabet, no part
// file), otherwise a fresh directory is opened.
var c08Shared *c08Impl

func (im *c08Impl) pristine() bool {
	if im.store == nil {
		return false
	}
	for id := 0; id < 3; id++ {
		if im.store.KnowsBundle(im.bid(id)) {
			return false
		}
	}
	ents, err := os.ReadDir(filepath.Join(im.dir, "bndl"))
	if err != nil || len(ents) != 0 {
		return false
	}
	if bis, err := im.store.QueryPending(); err != nil || len(bis) != 0 {
		return false
	}
	return true
}

func c08Replay(t c08Task) (res c08Result) {
	defer func() {
		if r := recover(); r != nil {
			res.Key, res.Desc = "C08/panic", fmt.Sprintf("panic: %v (history %v)", r, t.Events)
		}
	}()
	useVirtualClock()
	im := c08Shared
	if im == nil || !im.pristine() {
		if im != nil && im.store != nil {
			_ = im.store.Close()
			_ = os.RemoveAll(im.dir)
		}
		c08DirSeq++
		dir := filepath.Join(os.Getenv("VERIF_SCRATCH"), fmt.Sprintf("c08-%d-%d", os.Getpid(), c08DirSeq))
		im = &c08Impl{dir: dir, objs: c08Objects()}
		if err := im.open(); err != nil {
			return c08Result{Key: "C08/harness-open", Desc: err.Error()}
		}
		c08Shared = im
	}
	defer func() {
		// reset for the next history: delete every record; a store that is not empty afterwards is discarded
		for id := 0; id < 3; id++ {
			_ = im.store.Delete(im.bid(id))
		}
	}()
	ref := newC08Ref()
	var obs []string
	for i, e := range t.Events {
		err := im.apply(e)
		if err != nil {
			return c08Result{Key: "C08/operation-failed:" + e.Op, Desc: fmt.Sprintf("step %d %v failed: %v (history %v)", i, e, err, t.Events[:i+1])}
		}
		ref.apply(e, im.objs)
		if k, d := im.compare(ref); k != "" {
			return c08Result{Key: k + ":after-" + e.Op, Desc: fmt.Sprintf("after %v: %s", t.Events[:i+1], d)}
		}
		obs = append(obs, ref.key())
	}
	res.Obs = strings.Join(obs, " > ")
	return
}

func c08Worker(task []byte) []byte {
	var t c08Task
	if err := json.Unmarshal(task, &t); err != nil {
		return mustJSON(c08Result{Key: "C08/harness", Desc: err.Error()})
	}
	return mustJSON(c08Replay(t))
}

func runC08(r *ev.Run, thorough bool) int {
	useVirtualClock()
	alpha := c08Alphabet()
	objs := c08Objects()
	maxDepth := 3
	if thorough {
		maxDepth = 5
	}
	// BFS over reference states; one history per transition, replayed from scratch on a fresh store
	type node struct {
		trace []c08Event
	}
	apply := func(tr []c08Event) *c08Ref {
		ref := newC08Ref()
		for _, e := range tr {
			ref.apply(e, objs)
		}
		return ref
	}
	seen := map[string]bool{newC08Ref().key() + "|open": true}
	frontier := []node{{}}
	var tasks []c08Task
	transitions := 0
	for depth := 0; depth < maxDepth && len(frontier) > 0; depth++ {
		var next []node
		for _, n := range frontier {
			for _, e := range alpha {
				tr := append(append([]c08Event(nil), n.trace...), e)
				transitions++
				tasks = append(tasks, c08Task{tr})
				k := apply(tr).key()
				if e.Op == "reopen" {
					k += "|reopened"
				} else {
					k += "|open"
				}
				if !seen[k] {
					seen[k] = true
					next = append(next, node{tr})
				}
			}
		}
		frontier = next
	}
	if len(frontier) > 0 {
		r.Note(fmt.Sprintf("BFS stopped at depth %d with %d unexpanded states (bound, not fixpoint)", maxDepth, len(frontier)))
	}
	raw := make([][]byte, len(tasks))
	for i, t := range tasks {
		raw[i] = mustJSON(t)
	}
	var mu sync.Mutex
	validated := 0
	outs := map[string]bool{}
	runPool("c08", 0, raw, func(i int, pr poolResult) {
		mu.Lock()
		defer mu.Unlock()
		if pr.Crashed {
			r.Violation("C08/crash", "history", "worker died: "+lastLines(pr.Stderr, 10), tasks[i])
			return
		}
		var res c08Result
		if err := json.Unmarshal(pr.Res, &res); err != nil {
			r.Violation("C08/harness-result", "history", err.Error(), tasks[i])
			return
		}
		validated++
		outs[res.Obs] = true
		if res.Key != "" {
			r.Violation(res.Key, "history", res.Desc, tasks[i])
		}
		if i%499 == 0 {
			r.Sample(map[string]interface{}{"history": fmt.Sprint(tasks[i].Events)})
		}
	})
	r.Add("histories", int64(len(tasks)))
	r.Add("distinct_observation_sequences", int64(len(outs)))
	states := len(seen)
	// crash points and concurrent pushes
	crashStates, crashTrans := c08Crash(r, thorough)
	schedExecs := c08Sched(r, thorough)
	return r.Finish(map[string]interface{}{
		"states":                        states + crashStates,
		"transitions":                   transitions + crashTrans + schedExecs,
		"traces_validated_against_impl": validated + crashTrans + schedExecs,
		"evaluations":                   len(tasks) + crashTrans + schedExecs,
		"distinct_nontrivial":           len(outs),
		"rule":                          fmt.Sprintf("E2: BFS over the reference map (records, parts, pending, property, expiry vs clock) with a %d-event alphabet {push A/B/four fragments of C incl. an overlapping one, update x4, delete, advance, sweep, reopen} to depth %d; every transition's history replayed on a fresh real store and every query compared; E4: every instrumented point of the last operation of short histories, process killed there, store reopened; E3: all schedules of concurrent fragment pushes up to a preemption bound", len(alpha), maxDepth),
	}, []string{"badger's own crash consistency under process kill (not power loss) is trusted", "store instances live on /dev/shm"})
}

func replayC08(kind string, c json.RawMessage) (string, bool) {
	switch kind {
	case "history":
		var t c08Task
		if err := json.Unmarshal(c, &t); err != nil {
			return err.Error(), false
		}
		failed := false
		var desc string
		runPool("c08", 1, [][]byte{mustJSON(t)}, func(i int, pr poolResult) {
			if pr.Crashed {
				failed, desc = true, "worker died: "+lastLines(pr.Stderr, 12)
				return
			}
			var res c08Result
			_ = json.Unmarshal(pr.Res, &res)
			failed, desc = res.Key != "", res.Key+": "+res.Desc
		})
		return desc, failed
	case "crash":
		return c08ReplayCrash(c)
	case "sched":
		return c08ReplaySched(c)
	}
	return "unknown kind", false
}
