// Package checks holds one exhaustive check per property.
package checks

import (
	"encoding/json"
	"time"

	"github.com/dtn7/dtn7-go/verif/ev"
	"github.com/dtn7/dtn7-go/verif/vtime"
)

type Check struct {
	Level  string
	Run    func(r *ev.Run, thorough bool) int
	Replay func(kind string, c json.RawMessage) (desc string, failed bool)
}

var All = map[string]Check{}

// VNow is the virtual instant used by the sequential (E1) checks.
var VNow = vtime.Epoch

// DtnNow is VNow in DTN milliseconds.
func DtnNow() uint64 {
	return uint64(VNow.UnixNano()/1000000) - 946684800000
}

func useVirtualClock() { vtime.SetVirtual(VNow) }

func jsonOf(x interface{}) string {
	b, _ := json.Marshal(x)
	return string(b)
}

var _ = time.Now

// WorkerMain is the entry point of worker sub-processes (see pool.go).
func WorkerMain() { workerMain() }
