// Package checks holds one exhaustive check per property.
package checks

import (
	"bytes"
	"encoding/json"
	"fmt"
	"os"
	"runtime/pprof"
	"time"

	"github.com/dtn7/dtn7-go/verif/ev"
	"github.com/dtn7/dtn7-go/verif/gen"
	"github.com/dtn7/dtn7-go/verif/vtime"
)

type Check struct {
	Level  string
	Run    func(r *ev.Run, thorough bool) int
	Replay func(kind string, c json.RawMessage) (desc string, failed bool)
}

var All = map[string]Check{}

// VNow is the virtual instant used by the sequential (E1) checks.
var VNow = vtime.Epoch

// DtnNow is VNow in DTN milliseconds.
func DtnNow() uint64 {
	return uint64(VNow.UnixNano()/1000000) - 946684800000
}

func useVirtualClock() {
	vtime.SetVirtual(VNow)
	// one-time registrations must not happen for the first time inside a managed thread (a real sync.Once would
	// be held across a schedule point)
	gen.RegisterAll()
}

func jsonOf(x interface{}) string {
	b, _ := json.Marshal(x)
	return string(b)
}

var _ = time.Now

// childMains are one-shot child processes (dtnmc child <kind> <json>).
var childMains = map[string]func(arg string){}

// ChildMain dispatches a child process.
func ChildMain(kind, arg string) {
	if f, ok := childMains[kind]; ok {
		f(arg)
		return
	}
	panic("unknown child kind " + kind)
}

// WorkerMain is the entry point of worker sub-processes (see pool.go).
func WorkerMain() { workerMain() }

func init() {
	// self-test of the reference CRCs against the published check values
	if ref16, ref32 := refCRC16("123456789"), refCRC32("123456789"); ref16 != 0x906E || ref32 != 0xE3069283 {
		panic("reference CRC self-test failed")
	}
}

// Bench runs the tasks of a file (one JSON per line) sequentially in-process and prints timings.
func Bench(kind, file string) {
	data, err := os.ReadFile(file)
	if err != nil {
		panic(err)
	}
	h := workers[kind]
	if pf := os.Getenv("VERIF_PROF"); pf != "" {
		f, _ := os.Create(pf)
		_ = pprof.StartCPUProfile(f)
		defer pprof.StopCPUProfile()
	}
	for _, line := range bytes.Split(bytes.TrimSpace(data), []byte("\n")) {
		t0 := time.Now()
		res := h(line)
		fmt.Printf("%8.2fms %s\n", float64(time.Since(t0).Microseconds())/1000, string(res[:minInt(len(res), 160)]))
	}
}

func minInt(a, b int) int {
	if a < b {
		return a
	}
	return b
}
