package checks

import (
	"bytes"
	"encoding/json"
	"fmt"
	"io"
	"net"
	"sync"
	"sync/atomic"
	"time"

	"github.com/dtn7/dtn7-go/pkg/bpv7"
	"github.com/dtn7/dtn7-go/pkg/cla"
	"github.com/dtn7/dtn7-go/pkg/cla/bbc"
	"github.com/dtn7/dtn7-go/pkg/cla/mtcp"
	"github.com/dtn7/dtn7-go/verif/ev"
	"github.com/dtn7/dtn7-go/verif/gen"
	"github.com/dtn7/dtn7-go/verif/par"
	"github.com/dtn7/dtn7-go/verif/ref"
	"github.com/dtn7/dtn7-go/verif/vtime"
)

func init() {
	All["C12"] = Check{Level: "fault_enumeration", Run: runC12, Replay: replayC12}
}

// ---- in-memory connections ----

type readConn struct {
	r     *bytes.Reader
	chunk int // > 0: at most that many bytes per Read (a socket hands data out in pieces)
}

func (c *readConn) Read(p []byte) (int, error) {
	if c.chunk > 0 && len(p) > c.chunk {
		p = p[:c.chunk]
	}
	return c.r.Read(p)
}
func (c *readConn) Write(p []byte) (int, error)      { return len(p), nil }
func (c *readConn) Close() error                     { return nil }
func (c *readConn) LocalAddr() net.Addr              { return &net.TCPAddr{} }
func (c *readConn) RemoteAddr() net.Addr             { return &net.TCPAddr{} }
func (c *readConn) SetDeadline(time.Time) error      { return nil }
func (c *readConn) SetReadDeadline(time.Time) error  { return nil }
func (c *readConn) SetWriteDeadline(time.Time) error { return nil }

// writeConn records writes and fails from the failAt-th Write call on (0-based; -1 never).
type writeConn struct {
	readConn
	buf    bytes.Buffer
	n      int
	failAt int
}

func (c *writeConn) Write(p []byte) (int, error) {
	k := c.n
	c.n++
	if c.failAt >= 0 && k >= c.failAt {
		return 0, fmt.Errorf("broken pipe (scripted)")
	}
	c.buf.Write(p)
	return len(p), nil
}

func c12Bundles() []bpv7.Bundle {
	var out []bpv7.Bundle
	for i, n := range []int{0, 30, 5000} {
		s := gen.Spec{Dst: "dtn://dst/", Src: "dtn://src/", Rpt: "dtn://src/", PCRC: 2, Time: DtnNow(), Seq: uint64(i), Lifetime: 3600000, PayLen: n, PaySeed: byte(i + 1), PayCRC: uint64(i % 3)}
		if i == 1 {
			s.Ext = []gen.BSpec{{Kind: "hop", N: []uint64{9, 1}}}
		}
		out = append(out, s.Build())
	}
	return out
}

func mtcpFrame(b *bpv7.Bundle) []byte {
	enc, _ := gen.Ser(b)
	return append(ref.AppendHead(nil, 2, uint64(len(enc)), 0), enc...)
}

// mtcpServe feeds the stream to the real server handler and returns the bundles it reported.
func mtcpServe(stream []byte) (got [][]byte, panicked interface{}) {
	return mtcpServeChunked(stream, 0)
}

func mtcpServeChunked(stream []byte, chunk int) (got [][]byte, panicked interface{}) {
	serv := mtcp.NewMTCPServer("verif:0", gen.MustEID("dtn://me/"), false)
	done := make(chan struct{})
	exited := make(chan struct{})
	var mu sync.Mutex
	go func() {
		defer close(exited)
		for {
			select {
			case cs := <-serv.Channel():
				if cs.MessageType == cla.ReceivedBundle {
					b := cs.Message.(cla.ConvergenceReceivedBundle).Bundle
					e, _ := gen.Ser(b)
					mu.Lock()
					got = append(got, e)
					mu.Unlock()
				}
			case <-done:
				return
			}
		}
	}()
	func() {
		defer func() { panicked = recover() }()
		serv.VerifHandleSender(&readConn{r: bytes.NewReader(stream), chunk: chunk})
	}()
	close(done)
	<-exited // the collector has recorded everything it received
	mu.Lock()
	defer mu.Unlock()
	return got, panicked
}

type c12Stats struct {
	streams, cuts, clientCases, trains, faults, merges int64
}

func c12MTCP(r *ev.Run, thorough bool, st *c12Stats) {
	bs := c12Bundles()
	frames := make([][]byte, len(bs))
	encs := make([][]byte, len(bs))
	for i := range bs {
		frames[i] = mtcpFrame(&bs[i])
		encs[i], _ = gen.Ser(&bs[i])
	}
	// all sequences of <= 3 bundles from 3, with 0..2 keep-alive frames in each gap (and at both ends)
	type seqT struct {
		idx []int
		ka  []int
	}
	var seqs []seqT
	var recB func(cur []int)
	recB = func(cur []int) {
		if len(cur) > 0 {
			// keep-alive patterns: one count per gap (len+1 gaps), each 0..2
			gaps := len(cur) + 1
			total := 1
			for i := 0; i < gaps; i++ {
				total *= 3
			}
			for code := 0; code < total; code++ {
				ka := make([]int, gaps)
				c := code
				for i := range ka {
					ka[i] = c % 3
					c /= 3
				}
				seqs = append(seqs, seqT{append([]int(nil), cur...), ka})
			}
		}
		if len(cur) == 3 {
			return
		}
		for i := range bs {
			recB(append(cur, i))
		}
	}
	recB(nil)
	par.For(len(seqs), func(si int) {
		sq := seqs[si]
		var stream []byte
		var ends []int
		for g, i := range sq.idx {
			for k := 0; k < sq.ka[g]; k++ {
				stream = append(stream, 0x40)
			}
			stream = append(stream, frames[i]...)
			ends = append(ends, len(stream))
		}
		for k := 0; k < sq.ka[len(sq.idx)]; k++ {
			stream = append(stream, 0x40)
		}
		atomic.AddInt64(&st.streams, 1)
		judge := func(cut int, data []byte) {
			got, p := mtcpServe(data)
			c := map[string]interface{}{"bundles": sq.idx, "keepalives": sq.ka, "cut_at": cut}
			if p != nil {
				r.Violation("C12/mtcp-server-panic", "mtcp", fmt.Sprint(p), c)
				return
			}
			want := 0
			for _, e := range ends {
				if e <= cut {
					want++
				}
			}
			if len(got) != want {
				k := "C12/mtcp-server-reports-wrong-number"
				if len(got) > want {
					k = "C12/mtcp-server-reports-incomplete-bundle"
				}
				r.Violation(k, "mtcp", fmt.Sprintf("stream of bundles %v (keep-alives %v) cut at byte %d of %d: server reported %d bundles, %d were complete", sq.idx, sq.ka, cut, len(stream), len(got), want), c)
				return
			}
			for i := range got {
				if !bytes.Equal(got[i], encs[sq.idx[i]]) {
					r.Violation("C12/mtcp-server-reports-different-bundle", "mtcp", fmt.Sprintf("bundle %d of the stream differs / is out of order", i), c)
					return
				}
			}
		}
		judge(len(stream), stream)
		// the same stream arriving 1 and 7 octets per Read
		for _, chunk := range []int{1, 7} {
			if len(stream) > 3000 && chunk == 1 && si%7 != 0 {
				continue
			}
			got, p := mtcpServeChunked(stream, chunk)
			ok := p == nil && len(got) == len(sq.idx)
			for i := 0; ok && i < len(got); i++ {
				ok = bytes.Equal(got[i], encs[sq.idx[i]])
			}
			if !ok {
				r.Violation("C12/mtcp-server-misreads-chunked-stream", "mtcp", fmt.Sprintf("stream of bundles %v (keep-alives %v) delivered %d octet(s) per Read: server reported %d bundles (panic %v)", sq.idx, sq.ka, chunk, len(got), p), map[string]interface{}{"bundles": sq.idx, "keepalives": sq.ka, "octets_per_read": chunk})
				break
			}
		}
		// cuts at every byte offset: for the streams without the big bundle (those are cut on a stride)
		stride := 1
		if len(stream) > 2000 {
			stride = 97
			if thorough {
				stride = 7
			}
		}
		if len(sq.idx) == 3 && !thorough && si%5 != 0 {
			return
		}
		for cut := 0; cut < len(stream); cut += stride {
			atomic.AddInt64(&st.cuts, 1)
			judge(cut, stream[:cut])
		}
	})
	// client: the connection fails at every Write index; or was broken before (accepts W more writes)
	for bi := range bs {
		probe := &writeConn{failAt: -1}
		cl := mtcp.VerifNewClient(probe, gen.MustEID("dtn://peer/"))
		if err := cl.Send(bs[bi]); err != nil {
			r.Violation("C12/mtcp-send-fails-on-healthy-connection", "mtcp", err.Error(), nil)
			continue
		}
		writes := probe.n
		got, _ := mtcpServe(probe.buf.Bytes())
		if len(got) != 1 || !bytes.Equal(got[0], encs[bi]) {
			r.Violation("C12/mtcp-client-stream-not-understood-by-server", "mtcp", fmt.Sprintf("bundle %d", bi), nil)
		}
		// a connection whose peer has gone accepts at most one more write (TCP buffers it) and fails afterwards:
		// k = 1 is explored even if a healthy send needs a single write
		maxK := writes
		if maxK < 2 {
			maxK = 2
		}
		for k := 0; k < maxK; k++ {
			st.clientCases++
			wc := &writeConn{failAt: k}
			cl := mtcp.VerifNewClient(wc, gen.MustEID("dtn://peer/"))
			err := cl.Send(bs[bi])
			c := map[string]interface{}{"bundle": bi, "connection_fails_from_write": k, "writes_on_healthy_connection": writes}
			if err == nil {
				r.Violation(fmt.Sprintf("C12/mtcp-send-succeeds-on-broken-connection:write%d-of-%d", k, writes), "mtcp", fmt.Sprintf("the connection failed from write call %d on (a healthy send needs %d), yet Send returned nil", k, writes), c)
				continue
			}
			gone := false
			for {
				select {
				case cs := <-cl.Channel():
					gone = gone || cs.MessageType == cla.PeerDisappeared
					continue
				default:
				}
				break
			}
			if !gone {
				r.Violation("C12/mtcp-peer-not-reported-gone", "mtcp", "Send failed but no PeerDisappeared was emitted", c)
			}
		}
	}
}

// gatedConn holds the k-th Write open (announcing it on entered) until the gate is closed.
type gatedConn struct {
	writeConn
	mu      sync.Mutex
	holdAt  int
	entered chan struct{}
	gate    chan struct{}
}

func (c *gatedConn) Write(p []byte) (int, error) {
	c.mu.Lock()
	k := c.n
	hold := k == c.holdAt
	if hold {
		c.holdAt = -1 // only once: a concurrent writer must not be held (or announce) again
	}
	c.mu.Unlock()
	if hold {
		close(c.entered)
		<-c.gate
	}
	c.mu.Lock()
	defer c.mu.Unlock()
	return c.writeConn.Write(p)
}

// c12KeepaliveDuringSend: the client's keep-alive ticker fires while Send is in the middle of writing a frame that
// needs several Write calls. The harness decides when the held Write returns; the stream the server sees must still
// be the bundle (keep-alives invisible).
func c12KeepaliveDuringSend(r *ev.Run, st *c12Stats) {
	bs := c12Bundles()
	big := bs[2]
	enc, _ := gen.Ser(&big)
	probe := &writeConn{failAt: -1}
	if err := mtcp.VerifNewClient(probe, gen.MustEID("dtn://peer/")).Send(big); err != nil || probe.n < 3 {
		r.Note(fmt.Sprintf("keep-alive-during-send not run: a healthy send of the large bundle needs %d writes", probe.n))
		return
	}
	for hold := 0; hold < probe.n-1; hold++ { // the last write is the probe after the frame
		st.clientCases++
		useVirtualClock()
		gc := &gatedConn{writeConn: writeConn{failAt: -1}, holdAt: hold, entered: make(chan struct{}), gate: make(chan struct{})}
		cl := mtcp.VerifNewClientLive(gc, gen.MustEID("dtn://peer/"))
		waitFor(func() bool { return vtime.PendingTimers() > 0 }) // the handler has armed its ticker
		sendDone := make(chan error, 1)
		go func() { sendDone <- cl.Send(big) }()
		<-gc.entered
		vtime.Advance(5 * time.Second)    // the keep-alive tick is handed to the handler
		time.Sleep(30 * time.Millisecond) // scheduling aid only: lets the handler act before the held Write returns
		close(gc.gate)
		err := <-sendDone
		vtime.Advance(5 * time.Second) // and one more keep-alive after the frame
		_ = cl.Close()
		gc.mu.Lock()
		stream := append([]byte(nil), gc.buf.Bytes()...)
		gc.mu.Unlock()
		c := map[string]interface{}{"keep_alive_tick_during_write": hold, "writes": probe.n}
		if err != nil {
			r.Violation("C12/mtcp-send-fails-on-healthy-connection", "mtcp", "keep-alive during Send: "+err.Error(), c)
			continue
		}
		got, p := mtcpServe(stream)
		if p != nil || len(got) != 1 || !bytes.Equal(got[0], enc) {
			r.Violation("C12/mtcp-keepalive-inside-frame", "mtcp", fmt.Sprintf("a keep-alive tick fired while Send was inside write call %d of %d of one frame; the server then understood %d bundles (panic %v) instead of exactly the bundle sent", hold, probe.n, len(got), p), c)
		}
	}
}

// ---- BBC ----

type nullModem struct{ mtu int }

func (m nullModem) Mtu() int                       { return m.mtu }
func (m nullModem) Send(bbc.Fragment) error        { return nil }
func (m nullModem) Receive() (bbc.Fragment, error) { return bbc.Fragment{}, io.EOF }
func (m nullModem) Close() error                   { return nil }
func (m nullModem) String() string                 { return "null-modem" }

func bbcTrain(b bpv7.Bundle, tid byte, mtu int) ([]bbc.Fragment, error) {
	t, err := bbc.NewOutgoingTransmission(tid, b, mtu)
	if err != nil {
		return nil, err
	}
	var out []bbc.Fragment
	for {
		f, fin, err := t.WriteFragment()
		if err != nil {
			return out, err
		}
		out = append(out, f)
		if fin {
			return out, nil
		}
		if len(out) > 100000 {
			return out, fmt.Errorf("train does not end")
		}
	}
}

// bbcReceive feeds the fragments to a fresh connector; returns delivered bundles and, per input fragment, whether
// a failure fragment was emitted in response.
func bbcReceive(frags []bbc.Fragment) (delivered [][]byte, failAfter []bool, panicked interface{}) {
	c := bbc.NewConnector(nullModem{64}, false)
	failAfter = make([]bool, len(frags))
	func() {
		defer func() { panicked = recover() }()
		for i, f := range frags {
			_ = c.VerifHandle(f)
			for _, o := range c.VerifDrainOut() {
				if o.FailBit() {
					failAfter[i] = true
				}
			}
			for {
				select {
				case cs := <-c.Channel():
					if cs.MessageType == cla.ReceivedBundle {
						e, _ := gen.Ser(cs.Message.(cla.ConvergenceReceivedBundle).Bundle)
						delivered = append(delivered, e)
					}
					continue
				default:
				}
				break
			}
		}
	}()
	return
}

func c12BBC(r *ev.Run, thorough bool, st *c12Stats) {
	bs := c12Bundles()[:2]
	small := gen.Spec{Dst: "dtn://d/", Src: "dtn://s/", Rpt: "dtn://s/", PCRC: 1, Time: DtnNow(), Lifetime: 60000, PayLen: 1, PaySeed: 7}.Build()
	bs = append(bs, small)
	mtus := []int{}
	for m := 3; m <= 40; m++ {
		mtus = append(mtus, m)
	}
	mtus = append(mtus, 64, 255)
	type job struct {
		bi, mtu int
	}
	var jobs []job
	for bi := range bs {
		for _, m := range mtus {
			jobs = append(jobs, job{bi, m})
		}
	}
	par.For(len(jobs), func(ji int) {
		j := jobs[ji]
		enc, _ := gen.Ser(&bs[j.bi])
		train, err := bbcTrain(bs[j.bi], byte(ji), j.mtu)
		c := map[string]interface{}{"bundle": j.bi, "mtu": j.mtu}
		if err != nil {
			r.Violation("C12/bbc-train-failed", "bbc", err.Error(), c)
			return
		}
		atomic.AddInt64(&st.trains, 1)
		// sender side
		for i, f := range train {
			if l := len(f.Bytes()); l > j.mtu {
				r.Violation("C12/bbc-fragment-exceeds-mtu", "bbc", fmt.Sprintf("fragment %d of %d has %d bytes, modem MTU %d", i, len(train), l, j.mtu), c)
				return
			}
			if f.StartBit() != (i == 0) || f.EndBit() != (i == len(train)-1) || f.FailBit() {
				r.Violation("C12/bbc-start-end-marks", "bbc", fmt.Sprintf("fragment %d of %d: %v", i, len(train), f), c)
				return
			}
			if i > 0 && f.SequenceNumber() != (train[i-1].SequenceNumber()+1)%16 {
				r.Violation("C12/bbc-sequence-numbers", "bbc", fmt.Sprintf("fragment %d has sequence number %d after %d", i, f.SequenceNumber(), train[i-1].SequenceNumber()), c)
				return
			}
			if i > 0 && len(f.Payload) == 0 {
				r.Violation("C12/bbc-empty-fragment", "bbc", fmt.Sprintf("fragment %d", i), c)
				return
			}
		}
		// receiver: intact train
		del, _, p := bbcReceive(train)
		if p != nil || len(del) != 1 || !bytes.Equal(del[0], enc) {
			r.Violation("C12/bbc-intact-train-not-delivered", "bbc", fmt.Sprintf("delivered %d bundles, panic %v", len(del), p), c)
			return
		}
		n := len(train)
		if n > 60 && !thorough {
			return // faults on long trains: thorough tier
		}
		if n > 400 {
			return
		}
		type fault struct {
			kind string
			k    int
		}
		var faults []fault
		for k := 0; k < n; k++ {
			faults = append(faults, fault{"drop", k}, fault{"dup", k})
			if k+1 < n {
				faults = append(faults, fault{"swap", k})
			}
		}
		apply := func(tr []bbc.Fragment, f fault) []bbc.Fragment {
			out := append([]bbc.Fragment(nil), tr...)
			switch f.kind {
			case "drop":
				out = append(out[:f.k], out[f.k+1:]...)
			case "dup":
				out = append(out[:f.k+1], append([]bbc.Fragment{out[f.k]}, out[f.k+1:]...)...)
			case "swap":
				out[f.k], out[f.k+1] = out[f.k+1], out[f.k]
			}
			return out
		}
		judge := func(name string, damaged []bbc.Fragment, firstBad int, lastOnlyLost bool) {
			atomic.AddInt64(&st.faults, 1)
			del, failAfter, p := bbcReceive(damaged)
			cc := map[string]interface{}{"bundle": j.bi, "mtu": j.mtu, "fault": name, "train_length": n}
			if p != nil {
				r.Violation("C12/bbc-receiver-panic", "bbc", fmt.Sprint(p), cc)
				return
			}
			for _, d := range del {
				if !bytes.Equal(d, enc) {
					r.Violation("C12/bbc-different-bundle-delivered", "bbc", name, cc)
					return
				}
			}
			// the identical bundle may be delivered again (a duplicated single-fragment train is a retransmission);
			// the Core de-duplicates by bundle ID
			if lastOnlyLost {
				if len(del) != 0 {
					r.Violation("C12/bbc-delivered-without-end", "bbc", name, cc)
				}
				return
			}
			// a failure must be signalled at the first fragment that does not continue the train
			if firstBad >= 0 && firstBad < len(damaged) {
				sig := false
				for i := firstBad; i < len(failAfter); i++ {
					sig = sig || failAfter[i]
				}
				if !sig {
					r.Violation("C12/bbc-damage-not-signalled:"+name[:4], "bbc", fmt.Sprintf("%s: no failure fragment was emitted", name), cc)
				}
			}
		}
		for _, f := range faults {
			damaged := apply(train, f)
			firstBad := f.k
			lastLost := false
			switch f.kind {
			case "drop":
				if f.k == n-1 {
					lastLost = true
				}
			case "dup":
				firstBad = f.k + 1
				if n == 1 {
					firstBad = -1 // a complete single-fragment train sent twice is a retransmission, not damage
				}
			case "swap":
				firstBad = f.k
			}
			judge(fmt.Sprintf("%s@%d", f.kind, f.k), damaged, firstBad, lastLost)
		}
		if n <= 8 || (thorough && n <= 14) {
			for a := 0; a < len(faults); a++ {
				for b := a + 1; b < len(faults); b++ {
					d1 := apply(train, faults[a])
					if faults[b].k >= len(d1)-1 {
						continue
					}
					d2 := apply(d1, faults[b])
					judge(fmt.Sprintf("%s@%d+%s@%d", faults[a].kind, faults[a].k, faults[b].kind, faults[b].k), d2, -1, false)
				}
			}
		}
		// two concurrent incoming transmissions: all merges of this train with a second one (short trains)
		if n <= 4 {
			other, _ := bbcTrain(bs[(j.bi+1)%len(bs)], byte(ji)+100, 200)
			if len(other) <= 4 {
				encO, _ := gen.Ser(&bs[(j.bi+1)%len(bs)])
				for _, mg := range merges(n, len(other)) {
					atomic.AddInt64(&st.merges, 1)
					var mixed []bbc.Fragment
					ia, ib := 0, 0
					for _, w := range mg {
						if w == 0 {
							mixed = append(mixed, train[ia])
							ia++
						} else {
							mixed = append(mixed, other[ib])
							ib++
						}
					}
					del, _, p := bbcReceive(mixed)
					ok := p == nil && len(del) == 2
					if ok {
						ok = (bytes.Equal(del[0], enc) && bytes.Equal(del[1], encO)) || (bytes.Equal(del[1], enc) && bytes.Equal(del[0], encO))
					}
					if !ok {
						r.Violation("C12/bbc-interleaved-transmissions", "bbc", fmt.Sprintf("merge %v of two intact trains: delivered %d bundles, panic %v", mg, len(del), p), c)
						break
					}
				}
			}
		}
	})
}

func runC12(r *ev.Run, thorough bool) int {
	useVirtualClock()
	var st c12Stats
	c12MTCP(r, thorough, &st)
	c12KeepaliveDuringSend(r, &st)
	c12BBC(r, thorough, &st)
	r.Add("mtcp_streams", st.streams)
	r.Add("mtcp_stream_cuts", st.cuts)
	r.Add("mtcp_client_fault_points", st.clientCases)
	r.Add("bbc_trains", st.trains)
	r.Add("bbc_fault_patterns", st.faults)
	r.Add("bbc_merges", st.merges)
	r.Sample(map[string]interface{}{"mtcp": "bundles [0 2 1] with keep-alives [2 0 1 0], cut at every byte", "bbc": "bundle 1, modem MTU 17, every single drop / duplication / adjacent swap"})
	if st.cuts == 0 || st.faults == 0 || st.clientCases == 0 {
		r.Violation("C12/vacuous", "none", "a part explored nothing", nil)
	}
	return r.Finish(map[string]interface{}{
		"evaluations":         st.streams + st.cuts + st.clientCases + st.trains + st.faults + st.merges,
		"distinct_nontrivial": st.cuts + st.clientCases + st.faults + st.merges,
		"rule":                "MTCP: all sequences of <= 3 bundles from 3 (payload 0, 30, 5000) with 0..2 keep-alive frames in every gap fed to the real server connection handler over an in-memory connection, each stream also cut at every byte offset (a stride for the streams containing the 5 KiB bundle): exactly the completely received bundles, identical and in order; the real client on a connection that fails from the k-th Write call on, for every k: Send errs and reports the peer gone. BBC: 3 bundles x modem MTU 3..40, 64, 255: fragment size, consecutive sequence numbers mod 16, start/end marks, identical reassembly; every single drop, duplication and adjacent swap of every train (<= 60 fragments quick), all pairs of faults for trains <= 8, all interleavings of two short trains; non-trivial = a fault pattern or cut actually executed",
	}, []string{"kernel-level TCP behaviour (RST timing) is modelled as: a broken connection rejects every write from some call on", "losing only the last fragment of a train cannot be detected without a timer: required is only that nothing is delivered"})
}

func replayC12(kind string, c json.RawMessage) (string, bool) {
	return "C12 cases are enumerated deterministically: re-run the check (the violating case is described in the artefact)", false
}
