package checks

import (
	"bytes"
	"encoding/json"
	"fmt"
	"net/http"
	"net/http/httptest"
	"sort"
	"strings"
	"sync"
	"time"

	"github.com/gorilla/mux"

	"github.com/dtn7/dtn7-go/pkg/agent"
	"github.com/dtn7/dtn7-go/pkg/bpv7"
	"github.com/dtn7/dtn7-go/verif/ev"
	"github.com/dtn7/dtn7-go/verif/gen"
	"github.com/dtn7/dtn7-go/verif/ref"
	"github.com/dtn7/dtn7-go/verif/vrt"
	"github.com/dtn7/dtn7-go/verif/vsync"
)

func init() {
	All["C07"] = Check{Level: "model_checking", Run: runC07, Replay: replayC07}
	workers["c07"] = c07Worker
	schedScenarios["c07rest"] = schedScenario{Setup: c07SchedSetup}
}

// e1, e2: registered by clients; "nobody": never registered, under a foreign node name; "own-nobody": never registered,
// under this node's own name (the Core treats every endpoint of its own node as local)
var c07Endpoints = []string{"dtn://apps/e1", "dtn://apps/e2", "dtn://apps/nobody", "dtn://node/nobody"}

type c07Event struct {
	Op string `json:"op"` // reg unreg fetch deliver mockreg mockunreg ping
	K  int    `json:"k,omitempty"`
	E  int    `json:"e,omitempty"`
}

func (e c07Event) String() string {
	switch e.Op {
	case "reg":
		return fmt.Sprintf("register(c%d,e%d)", e.K, e.E+1)
	case "unreg", "fetch":
		return fmt.Sprintf("%s(c%d)", e.Op, e.K)
	case "wsreg":
		return fmt.Sprintf("ws-register(w%d,e%d)", e.K, e.E+1)
	case "wsclose":
		return fmt.Sprintf("ws-close(w%d)", e.K)
	case "deliver":
		return fmt.Sprintf("deliver(->%s)", []string{"e1", "e2", "nobody", "own-nobody"}[e.E])
	}
	return e.Op
}

type c07Model struct {
	Client  [3]int   // -1 none, else endpoint index
	Mailbox [3][]int // bundle numbers
	Mock    bool     // mock agent registered for e1
	MockGot []int
	NBundle int
	// bundles for e1 / e2 that arrived while nobody was registered for the endpoint: they wait in the store and are
	// delivered by the next retry once somebody is
	Unclaimed [2][]int
	// Claimed: a waiting bundle of this endpoint was delivered by a retry at least once. The implementation treats
	// such a bundle differently from one delivered on arrival (it went through the forwarding path first), so the
	// two histories are not merged.
	Claimed [2]bool
}

func (m c07Model) key() string {
	return fmt.Sprintf("%v|%v|%v|%d|%d,%d", m.Client, m.Mailbox, m.Mock, len(m.MockGot), len(m.Unclaimed[0]), len(m.Unclaimed[1])) + fmt.Sprint(m.Claimed)
}

func c07Alphabet() []c07Event {
	var out []c07Event
	for k := 0; k < 3; k++ {
		for e := 0; e < 2; e++ {
			if k == 2 && e == 0 {
				continue
			}
			out = append(out, c07Event{Op: "reg", K: k, E: e})
		}
		out = append(out, c07Event{Op: "unreg", K: k}, c07Event{Op: "fetch", K: k})
	}
	for e := 0; e < 4; e++ {
		out = append(out, c07Event{Op: "deliver", E: e})
	}
	out = append(out, c07Event{Op: "mockreg"}, c07Event{Op: "mockunreg"}, c07Event{Op: "ping"}, c07Event{Op: "retry"})
	return out
}

type c07Task struct {
	Events []c07Event `json:"events"`
	Order  int32      `json:"order"` // sync.Map range order (1 ascending, 2 descending by registration)
	// NoPeers: no convergence sender is connected (a bundle nobody is registered for cannot be forwarded and waits
	// with other retention constraints than after a successful forwarding)
	NoPeers bool `json:"no_peers,omitempty"`
}

type c07Result struct {
	Key   string `json:"key,omitempty"`
	Desc  string `json:"desc,omitempty"`
	State string `json:"state"`
	Obs   string `json:"obs"`
}

type c07Harness struct {
	n      *nhNode
	router *mux.Router
	rest   *agent.RestAgent
	uuid   [3]string
	mock   *nhAgent
	ping   *agent.PingAgent
}

func (h *c07Harness) post(path string, body interface{}, out interface{}) error {
	data, _ := json.Marshal(body)
	req := httptest.NewRequest(http.MethodPost, path, bytes.NewReader(data))
	rec := httptest.NewRecorder()
	h.router.ServeHTTP(rec, req)
	if rec.Code != 200 {
		return fmt.Errorf("HTTP %d", rec.Code)
	}
	return json.Unmarshal(rec.Body.Bytes(), out)
}

func c07Bundle(n int, dst string) bpv7.Bundle {
	s := gen.Spec{Dst: dst, Src: "dtn://far/app", Rpt: "dtn://far/app", PCRC: 2, Time: DtnNow() - 1000, Seq: uint64(n), Lifetime: 3600000, PayLen: 4, PaySeed: byte(n + 1), Flags: ref.FReqDelivery}
	return s.Build()
}

func bundleNo(b *bpv7.Bundle) int { return int(b.PrimaryBlock.CreationTimestamp.SequenceNumber()) }

func c07Replay(t c07Task) (res c07Result) {
	defer func() {
		if r := recover(); r != nil {
			res.Key, res.Desc = "panic", fmt.Sprintf("%v", r)
		}
	}()
	useVirtualClock()
	n, err := newNhNode(nhConfig{Algo: "epidemic", Agents: true})
	if err != nil {
		return c07Result{Key: "harness-open", Desc: err.Error()}
	}
	defer n.destroy()
	h := &c07Harness{n: n, router: mux.NewRouter()}
	h.rest = agent.NewRestAgent(h.router)
	n.core.RegisterApplicationAgent(h.rest)
	h.ping = agent.NewPing(gen.MustEID("dtn://node/ping"))
	n.core.RegisterApplicationAgent(h.ping)
	if !t.NoPeers {
		n.peerUp("r2")
		n.peerUp("far")
	}
	// deterministic Range order: by registration order of the REST clients
	regOrder := map[string]int{}
	vsync.RangeLess.Store(func(a, b interface{}) bool {
		sa, oka := a.(string)
		sb, okb := b.(string)
		if oka && okb {
			if t.Order == 2 {
				return regOrder[sa] > regOrder[sb]
			}
			return regOrder[sa] < regOrder[sb]
		}
		return fmt.Sprint(a) < fmt.Sprint(b)
	})
	defer vsync.RangeLess.Store((func(a, b interface{}) bool)(nil))
	m := c07Model{Client: [3]int{-1, -1, -1}}
	var obs []string
	fail := func(k, d string, i int) c07Result {
		return c07Result{Key: k, Desc: fmt.Sprintf("after %v: %s", t.Events[:i+1], d)}
	}
	for i, e := range t.Events {
		before := n.nSends()
		switch e.Op {
		case "reg":
			if m.Client[e.K] >= 0 {
				continue
			}
			var rr agent.RestRegisterResponse
			if err := h.post("/register", agent.RestRegisterRequest{EndpointId: c07Endpoints[e.E]}, &rr); err != nil || rr.Error != "" {
				return fail("rest-register-failed", fmt.Sprint(err, rr.Error), i)
			}
			h.uuid[e.K] = rr.UUID
			regOrder[rr.UUID] = len(regOrder)
			m.Client[e.K] = e.E
			m.Mailbox[e.K] = nil
		case "unreg":
			if m.Client[e.K] < 0 {
				continue
			}
			var ur agent.RestUnregisterResponse
			_ = h.post("/unregister", agent.RestUnregisterRequest{UUID: h.uuid[e.K]}, &ur)
			m.Client[e.K] = -1
			m.Mailbox[e.K] = nil
		case "fetch":
			if m.Client[e.K] < 0 {
				continue
			}
			var fr struct {
				Error   string            `json:"error"`
				Bundles []json.RawMessage `json:"bundles"`
			}
			if err := h.post("/fetch", agent.RestFetchRequest{UUID: h.uuid[e.K]}, &fr); err != nil {
				return fail("rest-fetch-failed", err.Error(), i)
			}
			var got []int
			for _, raw := range fr.Bundles {
				var jb struct {
					PrimaryBlock struct {
						CreationTimestamp struct {
							Seq int `json:"sequenceNo"`
						} `json:"creationTimestamp"`
					} `json:"primaryBlock"`
				}
				_ = json.Unmarshal(raw, &jb)
				got = append(got, jb.PrimaryBlock.CreationTimestamp.Seq)
			}
			want := m.Mailbox[e.K]
			if fmt.Sprint(got) != fmt.Sprint(want) && !(len(got) == 0 && len(want) == 0) {
				k := "rest-fetch-differs-from-mailbox"
				if len(got) < len(want) {
					k = "rest-client-missed-bundles"
				}
				return fail(k, fmt.Sprintf("client c%d (registered for e%d) fetched bundles %v, must be %v", e.K, m.Client[e.K]+1, got, want), i)
			}
			m.Mailbox[e.K] = nil
			obs = append(obs, fmt.Sprintf("fetch%d=%v", e.K, got))
		case "deliver":
			m.NBundle++
			b := c07Bundle(m.NBundle, c07Endpoints[e.E])
			var recips []string
			for k := 0; k < 3; k++ {
				if m.Client[k] == e.E {
					m.Mailbox[k] = append(m.Mailbox[k], m.NBundle)
					recips = append(recips, fmt.Sprintf("c%d", k))
				}
			}
			mockWant := len(m.MockGot)
			if m.Mock && e.E == 0 {
				m.MockGot = append(m.MockGot, m.NBundle)
				recips = append(recips, "mock")
				mockWant++
			}
			if len(recips) == 0 && e.E < 2 {
				m.Unclaimed[e.E] = append(m.Unclaimed[e.E], m.NBundle)
			}
			n.receive(b, "r1")
			// push markers through the multiplexer and the REST agent so that the delivery is complete
			n.core.VerifAgentMarker(gen.MustEID(c07Endpoints[e.E]))
			n.core.VerifAgentMarker(gen.MustEID(c07Endpoints[e.E]))
			n.core.VerifAgentFlush()
			sent := false
			var reports []string
			for _, s := range n.sendsSince(before) {
				rb, derr := ref.Decode(s.Enc)
				if derr != nil {
					continue
				}
				if rb.P.Src.String() == "dtn://far/app" && int(rb.P.Seq) == m.NBundle {
					sent = true
				}
				if rb.P.Flags&ref.FAdminRecord != 0 {
					if rep, rerr := decodeReport(rb); rerr == nil && strings.HasSuffix(rep.RefID, fmt.Sprintf("-%d", m.NBundle)) {
						reports = append(reports, fmt.Sprintf("%d/%d", rep.Status, rep.Reason))
					}
				}
			}
			if len(recips) > 0 && sent {
				return fail("locally-registered-bundle-transmitted-to-peers", fmt.Sprintf("bundle %d for e%d has local recipients %v but was handed to a convergence sender", m.NBundle, e.E+1, recips), i)
			}
			if h.mock != nil && m.Mock {
				if !h.mock.waitBundles(mockWant) {
					return fail("mock-agent-missed-bundle", fmt.Sprintf("bundle %d", m.NBundle), i)
				}
			}
			if h.mock != nil && len(h.mock.bundles()) > len(m.MockGot) {
				return fail("agent-got-bundle-for-other-endpoint", fmt.Sprintf("mock agent (e1) received %d bundles, expected %d", len(h.mock.bundles()), len(m.MockGot)), i)
			}
			delivered := false
			for _, r := range reports {
				delivered = delivered || r == "2/0"
			}
			if delivered && len(recips) == 0 {
				return fail("delivery-reported-without-hand-over", fmt.Sprintf("bundle %d for e%d: nobody is registered, yet a delivered report was sent", m.NBundle, e.E+1), i)
			}
			if e.E == 3 {
				// addressed to this node, nobody registered: no hand-over took place, so the retention constraint stays
				si := n.storeInfo(b.ID().Scrub())
				held := false
				for _, c := range si.Cons {
					held = held || c == "local endpoint"
				}
				if !si.Known || !held {
					return fail("retention-constraint-removed-without-hand-over", fmt.Sprintf("bundle %d for %s: no agent is registered for it, nothing was handed over, but the store says known=%v constraints=%v", m.NBundle, c07Endpoints[3], si.Known, si.Cons), i)
				}
			}
			obs = append(obs, fmt.Sprintf("deliver%d->%v sent=%v rep=%v", m.NBundle, recips, sent, reports))
		case "retry":
			// the pending-retry job: bundles waiting for an endpoint that has recipients by now are delivered to them
			mockWant := len(m.MockGot)
			var claimed []int
			for ep := 0; ep < 2; ep++ {
				got := 0
				for k := 0; k < 3; k++ {
					if m.Client[k] == ep {
						m.Mailbox[k] = append(m.Mailbox[k], m.Unclaimed[ep]...)
						got++
					}
				}
				if m.Mock && ep == 0 {
					m.MockGot = append(m.MockGot, m.Unclaimed[ep]...)
					mockWant += len(m.Unclaimed[ep])
					got++
				}
				if got > 0 {
					if len(m.Unclaimed[ep]) > 0 {
						m.Claimed[ep] = true
					}
					claimed = append(claimed, m.Unclaimed[ep]...)
					m.Unclaimed[ep] = nil
				}
			}
			n.retryTick()
			for ep := 0; ep < 2; ep++ {
				n.core.VerifAgentMarker(gen.MustEID(c07Endpoints[ep]))
				n.core.VerifAgentMarker(gen.MustEID(c07Endpoints[ep]))
			}
			n.core.VerifAgentFlush()
			if h.mock != nil && m.Mock && !h.mock.waitBundles(mockWant) {
				return fail("mock-agent-missed-bundle", fmt.Sprintf("after the retry the mock agent has %d bundles, expected %d", len(h.mock.bundles()), mockWant), i)
			}
			for _, sd := range n.sendsSince(before) {
				rb, derr := ref.Decode(sd.Enc)
				if derr != nil || rb.P.Src.String() != "dtn://far/app" {
					continue
				}
				for _, c := range claimed {
					if int(rb.P.Seq) == c {
						return fail("locally-registered-bundle-transmitted-to-peers", fmt.Sprintf("bundle %d waited for an endpoint that has local recipients by now; the retry handed it to convergence sender %s", c, sd.Peer), i)
					}
				}
			}
			obs = append(obs, fmt.Sprintf("retry claimed=%v", claimed))
		case "mockreg":
			if m.Mock {
				continue
			}
			h.mock = newNhAgent(c07Endpoints[0])
			n.core.RegisterApplicationAgent(h.mock)
			m.Mock = true
			m.MockGot = nil
		case "mockunreg":
			if !m.Mock {
				continue
			}
			h.mock.sender <- agent.ShutdownMessage{}
			<-h.mock.done // the mux closes the agent's receiver when it has unregistered it
			m.Mock = false
		case "stalled-fanout":
			// three agents for e1; the first one stalls while the multiplexer fans a bundle out, agent e.K leaves
			// meanwhile, then the first one resumes: everybody still registered gets the bundle exactly once
			ags := []*nhAgent{newNhAgent(c07Endpoints[0]), newNhAgent(c07Endpoints[0]), newNhAgent(c07Endpoints[0])}
			for _, a := range ags {
				n.core.RegisterApplicationAgent(a)
			}
			ags[0].stall()
			m.NBundle++
			b := c07Bundle(m.NBundle, c07Endpoints[0])
			// no report request: the Core would otherwise consult the (blocked) multiplexer for the report-to check
			b.PrimaryBlock.BundleControlFlags = 0
			for k := 0; k < 3; k++ {
				if m.Client[k] == 0 {
					m.Mailbox[k] = append(m.Mailbox[k], m.NBundle)
				}
			}
			n.receive(b, "r1")
			leaver := ags[e.K]
			go func() { leaver.sender <- agent.ShutdownMessage{} }()
			time.Sleep(100 * time.Millisecond) // scheduling aid only: lets a (wrongly) unblocked unregistration finish
			ags[0].resume()
			n.core.VerifAgentMarker(gen.MustEID(c07Endpoints[0]))
			n.core.VerifAgentFlush()
			<-leaver.done
			for ai, a := range ags {
				want := 1
				got := len(a.bundles())
				if got > 1 || (a != leaver && got != want) {
					return fail("agent-fanout-count", fmt.Sprintf("agent %d of 3 registered for e1 received the bundle %d times while agent %d unregistered during the fan-out", ai, got, e.K), i)
				}
			}
			for _, a := range ags {
				if a != leaver {
					a.sender <- agent.ShutdownMessage{}
					<-a.done
				}
			}
		case "ping":
			m.NBundle++
			b := c07Bundle(m.NBundle, "dtn://node/ping")
			n.receive(b, "r1")
			n.core.VerifAgentMarker(gen.MustEID("dtn://node/ping"))
			n.core.VerifAgentMarker(gen.MustEID("dtn://node/ping"))
			n.core.VerifAgentFlush()
			// the pong travels ping agent -> mux -> agent manager -> SendBundle -> peer "far": wait for it
			if !t.NoPeers && !waitFor(func() bool { return n.nSends() > before }) {
				return fail("no-pong", "the ping agent did not answer", i)
			}
			// ... and let the agent manager finish handling it (two markers through the agent -> manager pipeline)
			n.agent.sender <- agent.SyscallRequestMessage{Sender: n.agent.eids[0], Request: "verif-marker-1"}
			n.agent.sender <- agent.SyscallRequestMessage{Sender: n.agent.eids[0], Request: "verif-marker-2"}
		}
	}
	// final: every mailbox holds exactly the model's content
	for k := 0; k < 3; k++ {
		if m.Client[k] < 0 {
			continue
		}
		var fr struct {
			Bundles []json.RawMessage `json:"bundles"`
		}
		_ = h.post("/fetch", agent.RestFetchRequest{UUID: h.uuid[k]}, &fr)
		if len(fr.Bundles) != len(m.Mailbox[k]) {
			key := "rest-client-missed-bundles"
			if len(fr.Bundles) > len(m.Mailbox[k]) {
				key = "rest-client-got-extra-bundles"
			}
			return c07Result{Key: key, Desc: fmt.Sprintf("after %v: final fetch of client c%d (e%d) returned %d bundles, must be %v", t.Events, k, m.Client[k]+1, len(fr.Bundles), m.Mailbox[k])}
		}
	}
	res.State = m.key()
	res.Obs = strings.Join(obs, " ; ")
	return
}

func c07Worker(task []byte) []byte {
	var t c07Task
	if err := json.Unmarshal(task, &t); err != nil {
		return mustJSON(c07Result{Key: "harness", Desc: err.Error()})
	}
	return mustJSON(c07Replay(t))
}

// model-only step used for state matching in the BFS
func (m *c07Model) step(e c07Event) bool {
	switch e.Op {
	case "reg":
		if m.Client[e.K] >= 0 {
			return false
		}
		m.Client[e.K] = e.E
		m.Mailbox[e.K] = nil
	case "unreg":
		if m.Client[e.K] < 0 {
			return false
		}
		m.Client[e.K] = -1
		m.Mailbox[e.K] = nil
	case "fetch":
		if m.Client[e.K] < 0 {
			return false
		}
		m.Mailbox[e.K] = nil
	case "deliver":
		m.NBundle++
		n := 0
		for k := 0; k < 3; k++ {
			if m.Client[k] == e.E {
				m.Mailbox[k] = append(append([]int(nil), m.Mailbox[k]...), 1) // content abstracted to a count for matching
				n++
			}
		}
		if m.Mock && e.E == 0 {
			m.MockGot = append(m.MockGot, 1)
			n++
		}
		if n == 0 && e.E < 2 {
			m.Unclaimed[e.E] = append(append([]int(nil), m.Unclaimed[e.E]...), 1)
		}
	case "retry":
		for ep := 0; ep < 2; ep++ {
			n := 0
			for k := 0; k < 3; k++ {
				if m.Client[k] == ep {
					m.Mailbox[k] = append(append([]int(nil), m.Mailbox[k]...), m.Unclaimed[ep]...)
					n++
				}
			}
			if m.Mock && ep == 0 {
				m.MockGot = append(append([]int(nil), m.MockGot...), m.Unclaimed[ep]...)
				n++
			}
			if n > 0 {
				if len(m.Unclaimed[ep]) > 0 {
					m.Claimed[ep] = true
				}
				m.Unclaimed[ep] = nil
			}
		}
	case "mockreg":
		if m.Mock {
			return false
		}
		m.Mock = true
	case "mockunreg":
		if !m.Mock {
			return false
		}
		m.Mock = false
	}
	return true
}

func runC07(r *ev.Run, thorough bool) int {
	alpha := c07Alphabet()
	depth := 4
	if thorough {
		depth = 6
	}
	type node struct {
		m     c07Model
		trace []c07Event
	}
	seen := map[string]bool{}
	frontier := []node{{m: c07Model{Client: [3]int{-1, -1, -1}}}}
	var tasks []c07Task
	transitions := 0
	for d := 0; d < depth; d++ {
		var next []node
		for _, nd := range frontier {
			for _, e := range alpha {
				m2 := nd.m
				m2.Mailbox = [3][]int{append([]int(nil), nd.m.Mailbox[0]...), append([]int(nil), nd.m.Mailbox[1]...), append([]int(nil), nd.m.Mailbox[2]...)}
				m2.MockGot = append([]int(nil), nd.m.MockGot...)
				if !m2.step(e) {
					continue
				}
				tr := append(append([]c07Event(nil), nd.trace...), e)
				transitions++
				for _, ord := range []int32{1, 2} {
					tasks = append(tasks, c07Task{Events: tr, Order: ord})
				}
				// histories with a retry also without any connected peer
				for _, ev := range tr {
					if ev.Op == "retry" {
						tasks = append(tasks, c07Task{Events: tr, Order: 1, NoPeers: true})
						break
					}
				}
				if k := m2.key(); !seen[k] {
					seen[k] = true
					next = append(next, node{m2, tr})
				}
			}
		}
		frontier = next
	}
	for k := 1; k <= 2; k++ {
		for _, ord := range []int32{1, 2} {
			tasks = append(tasks, c07Task{Events: []c07Event{{Op: "stalled-fanout", K: k}}, Order: ord})
			tasks = append(tasks, c07Task{Events: []c07Event{{Op: "reg", K: 0, E: 0}, {Op: "stalled-fanout", K: k}, {Op: "fetch", K: 0}}, Order: ord})
		}
	}
	raw := make([][]byte, len(tasks))
	for i, t := range tasks {
		raw[i] = mustJSON(t)
	}
	var mu sync.Mutex
	validated := 0
	outs := map[string]bool{}
	runPool("c07", 0, raw, func(i int, pr poolResult) {
		mu.Lock()
		defer mu.Unlock()
		if pr.Crashed {
			r.Violation("C07/node-crashed", "history", "node process died: "+lastLines(pr.Stderr, 12), tasks[i])
			return
		}
		var res c07Result
		_ = json.Unmarshal(pr.Res, &res)
		validated++
		outs[res.Obs] = true
		if res.Key != "" {
			r.Violation("C07/"+res.Key, "history", res.Desc, tasks[i])
		}
		if i%1999 == 0 {
			r.Sample(map[string]interface{}{"history": fmt.Sprint(tasks[i].Events), "map_range_order": tasks[i].Order, "observed": res.Obs})
		}
	})
	r.Add("histories", int64(len(tasks)))
	r.Add("distinct_observation_sequences", int64(len(outs)))
	// WebSocket clients (sequential histories over real loopback connections)
	wsDepth := 4
	if thorough {
		wsDepth = 6
	}
	wst := c07wsExplore(r, wsDepth)
	// E3: deliveries racing with fetch / unregister / register on one mailbox
	execs := 0
	for _, sc := range []c07SchedArg{{Threads: []string{"deliver1", "deliver2", "fetch"}}, {Threads: []string{"deliver1", "fetch", "fetch"}}, {Threads: []string{"deliver1", "unregister", "deliver2"}}} {
		bound := 2
		if thorough {
			bound = 4
		}
		budget := 6000
		if thorough {
			budget = 300000
		}
		sum := exploreSchedules("c07rest", sc, bound, budget)
		if sum.Capped {
			r.Capped(fmt.Sprintf("schedule exploration of %v with preemption bound %d stopped at %d executions", sc.Threads, bound, budget))
		}
		execs += sum.Execs
		r.Add("sched_executions", int64(sum.Execs))
		r.Add("sched_distinct_outcomes", int64(len(sum.Outcomes)))
		for _, v := range sum.Viol {
			r.Violation("C07/concurrent-rest:"+v.Key, "sched", v.Desc, schedTask{Scenario: "c07rest", Arg: mustJSON(sc), Prefix: v.Prefix, Single: true})
		}
		r.Sample(map[string]interface{}{"scenario": "REST mailbox under concurrency", "threads": sc.Threads, "preemption_bound": bound, "executions": sum.Execs, "outcomes": sum.Outcomes})
	}
	return r.Finish(map[string]interface{}{
		"states":                        len(seen) + wst.States,
		"transitions":                   transitions + execs + wst.Transitions,
		"traces_validated_against_impl": validated + execs + wst.Validated,
		"evaluations":                   len(tasks) + execs + wst.Transitions,
		"distinct_nontrivial":           len(outs) + wst.Outcomes,
		"rule":                          fmt.Sprintf("E2: BFS to depth %d over {register REST client k for e1/e2, unregister, fetch, bundle arrives for e1/e2/an unregistered endpoint, mock agent for e1 registers/unregisters, ping} with a reference model (client -> endpoint, mailbox lists); every history replayed on a real Core + RestAgent (HTTP handlers through the router) + PingAgent + mock agent, in both iteration orders of the client table; E3: all schedules up to a preemption bound of deliveries racing with fetch/unregister on one mailbox (schedule points at sync.Map operations); WebSocket: BFS to depth %d over {client k connects and registers e1/e2, client k closes, bundle arrives for e1/e2/nobody} replayed on a real Core + WebSocketAgent behind an HTTP test server with real WebSocketAgentConnector clients on the loopback interface; per-client FIFO fences instead of clocks", depth, wsDepth),
	}, []string{"WebSocket agent: sequential histories only (gorilla/websocket and the sockets are not under the scheduler); concurrent register/close/deliver on WebSocket clients is not decided", "quiescence of agent delivery by marker messages through the multiplexer"})
}

func replayC07(kind string, c json.RawMessage) (string, bool) {
	if kind == "sched" {
		return c08ReplaySched(c)
	}
	var t c07Task
	if err := json.Unmarshal(c, &t); err != nil {
		return err.Error(), false
	}
	failed := false
	desc := ""
	wk := "c07"
	if kind == "wshistory" {
		wk = "c07ws"
	}
	runPool(wk, 1, [][]byte{mustJSON(t)}, func(i int, pr poolResult) {
		if pr.Crashed {
			failed, desc = true, "node process died: "+lastLines(pr.Stderr, 12)
			return
		}
		var res c07Result
		_ = json.Unmarshal(pr.Res, &res)
		failed, desc = res.Key != "", res.Key+": "+res.Desc+" | "+res.Obs
	})
	return desc, failed
}

// ---- E3 on the REST agent's mailbox ----

type c07SchedArg struct {
	Threads []string `json:"threads"`
}

func c07SchedSetup(arg json.RawMessage) (func(), func(vrt.Result) (string, string, string), func()) {
	var a c07SchedArg
	_ = json.Unmarshal(arg, &a)
	useVirtualClock()
	router := mux.NewRouter()
	ra := agent.NewRestAgent(router)
	post := func(path string, body interface{}, out interface{}) {
		data, _ := json.Marshal(body)
		rec := httptest.NewRecorder()
		router.ServeHTTP(rec, httptest.NewRequest(http.MethodPost, path, bytes.NewReader(data)))
		_ = json.Unmarshal(rec.Body.Bytes(), out)
	}
	var rr agent.RestRegisterResponse
	post("/register", agent.RestRegisterRequest{EndpointId: c07Endpoints[0]}, &rr)
	uuid := rr.UUID
	var mu sync.Mutex
	fetched := []int{}
	unregistered := false
	deliveredBeforeUnreg := map[int]bool{}
	body := func() {
		var wg vsync.WaitGroup
		wg.Add(len(a.Threads))
		for _, th := range a.Threads {
			th := th
			vrt.Go("harness", func() {
				defer wg.Done()
				switch th {
				case "deliver1", "deliver2":
					n := 1
					if th == "deliver2" {
						n = 2
					}
					ra.VerifDeliver(agent.BundleMessage{Bundle: c07Bundle(n, c07Endpoints[0])})
				case "fetch":
					got := c07FetchNos(post, uuid)
					mu.Lock()
					fetched = append(fetched, got...)
					mu.Unlock()
				case "unregister":
					var ur agent.RestUnregisterResponse
					post("/unregister", agent.RestUnregisterRequest{UUID: uuid}, &ur)
					mu.Lock()
					unregistered = true
					mu.Unlock()
				}
			})
		}
		wg.Wait()
	}
	judge := func(res vrt.Result) (obs, key, desc string) {
		// final fetch
		final := c07FetchNos(post, uuid)
		all := append(append([]int(nil), fetched...), final...)
		sort.Ints(all)
		want := []int{}
		for _, th := range a.Threads {
			if th == "deliver1" {
				want = append(want, 1)
			}
			if th == "deliver2" {
				want = append(want, 2)
			}
		}
		sort.Ints(want)
		obs = fmt.Sprintf("fetched=%v final=%v unregistered=%v", fetched, final, unregistered)
		_ = deliveredBeforeUnreg
		if unregistered {
			return obs, "", "" // the client is gone; what its abandoned mailbox holds is not part of the property
		}
		for i := 1; i < len(all); i++ {
			if all[i] == all[i-1] {
				return obs, "bundle-fetched-twice", fmt.Sprintf("fetches returned %v", all)
			}
		}
		if fmt.Sprint(all) != fmt.Sprint(want) {
			return obs, "bundle-lost-between-deliver-and-fetch", fmt.Sprintf("bundles %v were put into the mailbox, all fetches together returned %v", want, all)
		}
		return obs, "", ""
	}
	cleanup := func() {
		ra.MessageReceiver() <- agent.ShutdownMessage{}
	}
	return body, judge, cleanup
}

// c07FetchNos fetches through the HTTP handler and returns the sequence numbers of the returned bundles.
func c07FetchNos(post func(string, interface{}, interface{}), uuid string) []int {
	var fr struct {
		Bundles []struct {
			PrimaryBlock struct {
				CreationTimestamp struct {
					Seq int `json:"sequenceNo"`
				} `json:"creationTimestamp"`
			} `json:"primaryBlock"`
		} `json:"bundles"`
	}
	post("/fetch", agent.RestFetchRequest{UUID: uuid}, &fr)
	var out []int
	for _, b := range fr.Bundles {
		out = append(out, b.PrimaryBlock.CreationTimestamp.Seq)
	}
	return out
}
