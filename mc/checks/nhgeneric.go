package checks

import (
	"fmt"

	"github.com/dtn7/dtn7-go/verif/ev"
)

// nhPlan describes the BFS explorations of one node-harness check.
type nhPlan struct {
	Scenario int
	Root     []nhEvent
	Alphabet []nhEvent
	Depth    int
	Budget   int
}

// nhRunPlans runs the plans and writes the evidence.
func nhRunPlans(r *ev.Run, prop, check string, plans []nhPlan, rule string, assumptions []string, extra ...func() int) int {
	var st nhBFSStats
	def := nhChecks[check]()
	for _, p := range plans {
		per := nhBFSStats{}
		nhExplore(r, prop, check, p.Scenario, p.Root, p.Alphabet, p.Depth, p.Budget, &per)
		r.Add("transitions_"+def.Scenarios[p.Scenario].Cfg.Algo, int64(per.Transitions))
		st.States += per.States
		st.Transitions += per.Transitions
		st.Validated += per.Validated
		st.Outcomes += per.Outcomes
		st.SendsSeen += per.SendsSeen
		if per.MaxDepth > st.MaxDepth {
			st.MaxDepth = per.MaxDepth
		}
	}
	for _, f := range extra {
		n := f()
		st.Transitions += n
		st.Validated += n
	}
	r.Add("sends_observed", int64(st.SendsSeen))
	r.Add("distinct_send_sequences", int64(st.Outcomes))
	r.Add("workers_lost_and_retried", PoolLostWorkers)
	if st.SendsSeen == 0 {
		r.Violation(prop+"/vacuous", "none", "no bundle was ever sent", nil)
	}
	return r.Finish(map[string]interface{}{
		"states":                        st.States,
		"transitions":                   st.Transitions,
		"traces_validated_against_impl": st.Validated,
		"evaluations":                   st.Transitions,
		"distinct_nontrivial":           st.Outcomes,
		"max_depth":                     st.MaxDepth,
		"rule":                          rule,
	}, append(assumptions, "explicit-state BFS over event histories of a real routing.Core under the virtual clock; successor = fresh node + replay + one event; state matching on store info, constraints, successful-transmission relation, connected peers, send outcomes, copy counters and a clock bucket", fmt.Sprintf("%d exploration plans", len(plans))))
}
