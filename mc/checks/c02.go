package checks

import (
	"encoding/hex"
	"encoding/json"
	"fmt"
	"sort"
	"strings"
	"sync"
	"sync/atomic"
	"time"

	"github.com/dtn7/dtn7-go/pkg/agent"
	"github.com/dtn7/dtn7-go/pkg/bpv7"
	"github.com/dtn7/dtn7-go/verif/ev"
	"github.com/dtn7/dtn7-go/verif/gen"
	"github.com/dtn7/dtn7-go/verif/par"
	"github.com/dtn7/dtn7-go/verif/ref"
)

func init() {
	All["C02"] = Check{Level: "exploration", Run: runC02, Replay: replayC02}
}

type c02Case struct {
	Hex   string   `json:"hex,omitempty"`
	Edits []string `json:"edits,omitempty"`
	Calls []string `json:"builder_calls,omitempty"`
	Map   string   `json:"build_map,omitempty"`
}

// A violator edits the tree of a valid encoding so that one structural rule is
// broken (if applicable to this bundle; returns false otherwise).
type violator struct {
	name string
	f    func(t *ref.Node) bool
}

func blkOf(t *ref.Node, typ uint64) (int, *ref.Node) {
	for i, k := range t.Kids {
		if i > 0 && len(k.Kids) >= 5 && k.Kids[0].Val == typ {
			return i, k
		}
	}
	return -1, nil
}

func setEID(n *ref.Node, e *ref.Node) { *n = *e }

func eidNode(scheme uint64, ssp *ref.Node) *ref.Node { return ref.A(ref.U(scheme), ssp) }

func c02Violators() []violator {
	var vs []violator
	add := func(name string, f func(t *ref.Node) bool) { vs = append(vs, violator{name, f}) }
	prim := func(t *ref.Node) *ref.Node { return t.Kids[0] }
	for _, v := range []uint64{6, 8, 0} {
		v := v
		add(fmt.Sprintf("version=%d", v), func(t *ref.Node) bool { prim(t).Kids[0].Val = v; return true })
	}
	add("no-payload", func(t *ref.Node) bool {
		i, _ := blkOf(t, ref.TPayload)
		if i < 0 {
			return false
		}
		t.Kids = append(t.Kids[:i], t.Kids[i+1:]...)
		return true
	})
	add("payload-first", func(t *ref.Node) bool {
		i, p := blkOf(t, ref.TPayload)
		if i < 2 {
			return false
		}
		rest := append([]*ref.Node{}, t.Kids[1:i]...)
		t.Kids = append([]*ref.Node{t.Kids[0], p}, rest...)
		return true
	})
	add("payload-swapped-with-previous", func(t *ref.Node) bool {
		i, _ := blkOf(t, ref.TPayload)
		if i < 2 {
			return false
		}
		t.Kids[i], t.Kids[i-1] = t.Kids[i-1], t.Kids[i]
		return true
	})
	for _, n := range []uint64{0, 2, 99} {
		n := n
		add(fmt.Sprintf("payload-number=%d", n), func(t *ref.Node) bool {
			_, p := blkOf(t, ref.TPayload)
			if p == nil {
				return false
			}
			p.Kids[1].Val = n
			return true
		})
	}
	add("dup-number-ext", func(t *ref.Node) bool {
		if len(t.Kids) < 4 {
			return false
		}
		t.Kids[1].Kids[1].Val = t.Kids[2].Kids[1].Val
		return true
	})
	add("ext-number=1", func(t *ref.Node) bool {
		if len(t.Kids) < 3 {
			return false
		}
		t.Kids[1].Kids[1].Val = 1
		return true
	})
	add("dup-type-ext", func(t *ref.Node) bool {
		if len(t.Kids) < 3 {
			return false
		}
		src := t.Kids[1]
		cp, _ := ref.ParseTree(src.Emit(nil))
		cp.Kids[1].Val = 77
		if cp.Kids[4].Major == 2 {
			_ = cp.Kids[4].Open()
		}
		t.Kids = append([]*ref.Node{t.Kids[0], cp}, t.Kids[1:]...)
		return true
	})
	add("second-payload", func(t *ref.Node) bool {
		_, p := blkOf(t, ref.TPayload)
		if p == nil {
			return false
		}
		cp, _ := ref.ParseTree(p.Emit(nil))
		cp.Kids[1].Val = 55
		t.Kids = append([]*ref.Node{t.Kids[0], cp}, t.Kids[1:]...)
		return true
	})
	badEIDs := map[string]func() *ref.Node{
		"ipn0.1":         func() *ref.Node { return eidNode(2, ref.A(ref.U(0), ref.U(1))) },
		"ipn1.0":         func() *ref.Node { return eidNode(2, ref.A(ref.U(1), ref.U(0))) },
		"dtn-text-none":  func() *ref.Node { return eidNode(1, ref.T("none")) },
		"dtn-no-slash":   func() *ref.Node { return eidNode(1, ref.T("//node")) },
		"dtn-empty":      func() *ref.Node { return eidNode(1, ref.T("")) },
		"dtn-badchar":    func() *ref.Node { return eidNode(1, ref.T("//no de/")) },
		"dtn-newline":    func() *ref.Node { return eidNode(1, ref.T("//n/x\n")) },
		"dtn-noauth":     func() *ref.Node { return eidNode(1, ref.T("///x")) },
		"scheme3":        func() *ref.Node { return eidNode(3, ref.T("//n/")) },
		"scheme0":        func() *ref.Node { return eidNode(0, ref.U(0)) },
		"ipn-three":      func() *ref.Node { return eidNode(2, ref.A(ref.U(1), ref.U(1), ref.U(1))) },
		"dtn-bytes-ssp":  func() *ref.Node { return eidNode(1, ref.B([]byte("//n/"))) },
		"eid-one-elem":   func() *ref.Node { return ref.A(ref.U(1)) },
		"eid-three-elem": func() *ref.Node { return ref.A(ref.U(1), ref.U(0), ref.U(0)) },
	}
	names := make([]string, 0, len(badEIDs))
	for k := range badEIDs {
		names = append(names, k)
	}
	sort.Strings(names)
	for _, nm := range names {
		mk := badEIDs[nm]
		for pos, pname := range map[int]string{3: "dst", 4: "src", 5: "rpt"} {
			pos, nm := pos, nm
			add("eid-"+pname+"="+nm, func(t *ref.Node) bool { setEID(prim(t).Kids[pos], mk()); return true })
		}
		nm := nm
		add("eid-prevnode="+nm, func(t *ref.Node) bool {
			_, b := blkOf(t, ref.TPrevNode)
			if b == nil || len(b.Kids[4].Inner) == 0 {
				return false
			}
			setEID(b.Kids[4].Inner[0], mk())
			return true
		})
	}
	setFlags := func(t *ref.Node, set, clear uint64) { f := prim(t).Kids[1]; f.Val = f.Val&^clear | set }
	makeFragment := func(t *ref.Node) {
		p := prim(t)
		if n := len(p.Kids); n == 8 || n == 9 {
			ins := []*ref.Node{ref.U(0), ref.U(1000)}
			p.Kids = append(p.Kids[:8], append(ins, p.Kids[8:]...)...)
		}
		setFlags(t, ref.FIsFragment, 0)
	}
	add("fragment+mustnotfragment", func(t *ref.Node) bool { makeFragment(t); setFlags(t, ref.FMustNotFrag, 0); return true })
	for _, rq := range []uint64{ref.FReqReception, ref.FReqForward, ref.FReqDelivery, ref.FReqDeletion} {
		rq := rq
		add(fmt.Sprintf("admin+request%x", rq), func(t *ref.Node) bool { setFlags(t, ref.FAdminRecord|rq, 0); return true })
		add(fmt.Sprintf("anon+request%x", rq), func(t *ref.Node) bool {
			setEID(prim(t).Kids[4], eidNode(1, ref.U(0)))
			setFlags(t, ref.FMustNotFrag|rq, ref.FIsFragment)
			p := prim(t)
			if n := len(p.Kids); n == 10 || n == 11 {
				p.Kids = append(p.Kids[:8], p.Kids[10:]...)
			}
			return true
		})
	}
	add("anon-without-mustnotfragment", func(t *ref.Node) bool {
		setEID(prim(t).Kids[4], eidNode(1, ref.U(0)))
		setFlags(t, 0, ref.FMustNotFrag|ref.FReqAny)
		return true
	})
	add("admin+report-block", func(t *ref.Node) bool {
		if len(t.Kids) < 3 {
			return false
		}
		setFlags(t, ref.FAdminRecord, ref.FReqAny)
		t.Kids[1].Kids[2].Val |= ref.BReport
		return true
	})
	add("anon+report-block-on-payload", func(t *ref.Node) bool {
		_, p := blkOf(t, ref.TPayload)
		if p == nil {
			return false
		}
		setEID(prim(t).Kids[4], eidNode(1, ref.U(0)))
		setFlags(t, ref.FMustNotFrag, ref.FReqAny|ref.FIsFragment)
		pp := prim(t)
		if n := len(pp.Kids); n == 10 || n == 11 {
			pp.Kids = append(pp.Kids[:8], pp.Kids[10:]...)
		}
		p.Kids[2].Val |= ref.BReport
		return true
	})
	add("zero-time-without-age", func(t *ref.Node) bool {
		prim(t).Kids[6].Kids[0].Val = 0
		if i, _ := blkOf(t, ref.TAge); i >= 0 {
			t.Kids = append(t.Kids[:i], t.Kids[i+1:]...)
		}
		return true
	})
	add("hopcount-exceeded", func(t *ref.Node) bool {
		_, b := blkOf(t, ref.THopCount)
		if b == nil || len(b.Kids[4].Inner) == 0 {
			return false
		}
		h := b.Kids[4].Inner[0]
		h.Kids[1].Val = h.Kids[0].Val + 1
		if h.Kids[1].Val > 255 {
			h.Kids[0].Val, h.Kids[1].Val = 254, 255
		}
		return true
	})
	// counts beyond one octet: a decoder narrowing the count to 8 bits sees count mod 256
	for _, d := range []uint64{256, 65536, 1 << 32} {
		d := d
		add(fmt.Sprintf("hopcount-wraps-mod-%d", d), func(t *ref.Node) bool {
			_, b := blkOf(t, ref.THopCount)
			if b == nil || len(b.Kids[4].Inner) == 0 {
				return false
			}
			h := b.Kids[4].Inner[0]
			h.Kids[1].Val = h.Kids[0].Val + d // limit + 256 etc.: far above the limit, equal to it modulo 256
			return true
		})
	}
	// no payload block at all: the last block keeps number 1 but is of another type
	add("payload-block-retyped", func(t *ref.Node) bool {
		_, b := blkOf(t, ref.TPayload)
		if b == nil {
			return false
		}
		b.Kids[0].Val = 200
		return true
	})
	add("hopcount-0-limit-1-count", func(t *ref.Node) bool {
		_, b := blkOf(t, ref.THopCount)
		if b == nil || len(b.Kids[4].Inner) == 0 {
			return false
		}
		h := b.Kids[4].Inner[0]
		h.Kids[0].Val, h.Kids[1].Val = 0, 1
		return true
	})
	now := DtnNow()
	add("lifetime-expired-by-1ms", func(t *ref.Node) bool {
		p := prim(t)
		if p.Kids[6].Kids[0].Val == 0 {
			return false
		}
		p.Kids[6].Kids[0].Val = now - 5000
		p.Kids[7].Val = 4999
		return true
	})
	add("lifetime-zero-old", func(t *ref.Node) bool {
		p := prim(t)
		if p.Kids[6].Kids[0].Val == 0 {
			return false
		}
		p.Kids[6].Kids[0].Val = 1
		p.Kids[7].Val = 0
		return true
	})
	add("age-exceeds-lifetime", func(t *ref.Node) bool {
		_, b := blkOf(t, ref.TAge)
		if b == nil || len(b.Kids[4].Inner) == 0 {
			return false
		}
		prim(t).Kids[6].Kids[0].Val = 0
		b.Kids[4].Inner[0].Val = prim(t).Kids[7].Val + 1
		return true
	})
	// near misses that must stay acceptable (the boundary on the valid side); they witness non-vacuity
	add("OK:lifetime-exactly-now", func(t *ref.Node) bool {
		p := prim(t)
		if p.Kids[6].Kids[0].Val == 0 {
			return false
		}
		p.Kids[6].Kids[0].Val = now - 5000
		p.Kids[7].Val = 5000
		return true
	})
	add("OK:hopcount-at-limit", func(t *ref.Node) bool {
		_, b := blkOf(t, ref.THopCount)
		if b == nil || len(b.Kids[4].Inner) == 0 {
			return false
		}
		h := b.Kids[4].Inner[0]
		h.Kids[1].Val = h.Kids[0].Val
		return true
	})
	return vs
}

func c02Bases() []gen.Spec {
	base := gen.Spec{Dst: "dtn://dst/", Src: "dtn://src/", Rpt: "dtn://rpt/", PCRC: 2, Time: DtnNow() - 1000, Seq: 3, Lifetime: 3600000, PayLen: 6}
	full := []gen.BSpec{{Kind: "prev", S: []string{"dtn://prev/"}}, {Kind: "hop", N: []uint64{10, 4}}, {Kind: "age", N: []uint64{100}}}
	var out []gen.Spec
	for i := 0; i < 30; i++ {
		s := base
		s.Ext = nil
		for j, b := range full {
			if i%4 == 3 && j == i%3 {
				continue
			}
			b.CRC = uint64((i + j) % 3)
			if i%5 == 1 {
				b.Flags = ref.BReplicate
			}
			s.Ext = append(s.Ext, b)
		}
		if i%6 == 2 {
			s.Ext = append(s.Ext, gen.BSpec{Kind: "unk", N: []uint64{200 + uint64(i)}, Len: i})
		}
		s.PCRC = uint64(1 + i%2)
		s.PayCRC = uint64(i % 3)
		switch i % 7 {
		case 1:
			s.Dst, s.Rpt = "ipn:9.1", "ipn:1.2"
		case 2:
			s.Flags = ref.FReqDelivery | ref.FStatusTime
		case 3:
			s.Flags = ref.FIsFragment
			s.FragOff, s.Total = 24, 256
		case 4:
			s.Flags = ref.FMustNotFrag | ref.FAppAck
		case 5:
			s.Time = 0
		}
		s.Seq = uint64(i)
		out = append(out, s)
	}
	return out
}

// c02Apply applies the violators with the given indices to the encoding.
func c02Apply(enc []byte, vs []violator, idx []int) ([]byte, []string, bool) {
	t, err := ref.ParseBundleTree(enc, false)
	if err != nil {
		return nil, nil, false
	}
	var names []string
	for _, i := range idx {
		ok := false
		func() {
			defer func() {
				if r := recover(); r != nil {
					ok = false
				}
			}()
			ok = vs[i].f(t)
		}()
		if !ok {
			return nil, nil, false
		}
		names = append(names, vs[i].name)
	}
	ref.FixCRCs(t)
	return t.Emit(nil), names, true
}

func c02JudgeEncoding(m []byte) (key, desc string, accepted bool, rules []string) {
	defer func() {
		if r := recover(); r != nil {
			key, desc = "C02/panic", fmt.Sprintf("parser panicked: %v", r)
		}
	}()
	_, err := gen.Parse(m)
	rb, derr := ref.Decode(m)
	if derr == nil {
		rules = rb.Rules(DtnNow())
	} else {
		rules = []string{"malformed:" + derr.Error()}
	}
	if err != nil {
		return "", "", false, rules
	}
	if len(rules) > 0 {
		return "C02/accepted-although:" + rules[0], fmt.Sprintf("parser accepted a bundle violating %v", rules), true, rules
	}
	return "", "", true, rules
}

// ---- producer side ----

type bcall struct {
	name string
	f    func(b *bpv7.BundleBuilder)
}

func c02BuilderCalls() []bcall {
	var cs []bcall
	add := func(n string, f func(b *bpv7.BundleBuilder)) { cs = append(cs, bcall{n, f}) }
	for _, e := range []string{"dtn://a/", "dtn:none", "ipn:1.1", "dtn://a/~g"} {
		e := e
		add("Source("+e+")", func(b *bpv7.BundleBuilder) { b.Source(e) })
		add("Destination("+e+")", func(b *bpv7.BundleBuilder) { b.Destination(e) })
	}
	add("ReportTo(dtn:none)", func(b *bpv7.BundleBuilder) { b.ReportTo("dtn:none") })
	add("ReportTo(bad)", func(b *bpv7.BundleBuilder) { b.ReportTo("ipn:0.0") })
	add("TimeNow", func(b *bpv7.BundleBuilder) { b.CreationTimestampNow() })
	add("TimeEpoch", func(b *bpv7.BundleBuilder) { b.CreationTimestampEpoch() })
	add("TimeOld", func(b *bpv7.BundleBuilder) { b.CreationTimestampTime(VNow.Add(-2 * time.Hour)) })
	add("Lifetime(1h)", func(b *bpv7.BundleBuilder) { b.Lifetime("1h") })
	add("Lifetime(0)", func(b *bpv7.BundleBuilder) { b.Lifetime(0) })
	add("Lifetime(-1)", func(b *bpv7.BundleBuilder) { b.Lifetime(-1) })
	for _, f := range []uint64{0, ref.FMustNotFrag, ref.FIsFragment | ref.FMustNotFrag, ref.FAdminRecord | ref.FReqDelivery, ref.FReqDeletion, ref.FIsFragment} {
		f := f
		add(fmt.Sprintf("Flags(%x)", f), func(b *bpv7.BundleBuilder) { b.BundleCtrlFlags(bpv7.BundleControlFlags(f)) })
	}
	add("CRC(0)", func(b *bpv7.BundleBuilder) { b.CRC(bpv7.CRCNo) })
	add("CRC(16)", func(b *bpv7.BundleBuilder) { b.CRC(bpv7.CRC16) })
	add("Payload", func(b *bpv7.BundleBuilder) { b.PayloadBlock([]byte("x")) })
	add("Payload+report", func(b *bpv7.BundleBuilder) { b.PayloadBlock([]byte("x"), bpv7.StatusReportBlock) })
	add("Hop(5)", func(b *bpv7.BundleBuilder) { b.HopCountBlock(5) })
	add("Age(0)", func(b *bpv7.BundleBuilder) { b.BundleAgeBlock(0) })
	add("Age(2h)", func(b *bpv7.BundleBuilder) { b.BundleAgeBlock("2h") })
	add("Prev(dtn://p/)", func(b *bpv7.BundleBuilder) { b.PreviousNodeBlock("dtn://p/") })
	add("Canonical(unknown+report)", func(b *bpv7.BundleBuilder) {
		b.Canonical(bpv7.NewGenericExtensionBlock([]byte{1}, 200), bpv7.StatusReportBlock)
	})
	add("Canonical(hop exceeded)", func(b *bpv7.BundleBuilder) {
		h := bpv7.NewHopCountBlock(1)
		h.Count = 2
		b.Canonical(h)
	})
	add("StatusReport", func(b *bpv7.BundleBuilder) {
		ref := gen.Spec{Dst: "dtn://d/", Src: "dtn://s/", Rpt: "dtn://s/", PCRC: 2, Time: DtnNow(), Lifetime: 1000, PayLen: 1}.Build()
		b.StatusReport(ref, bpv7.ReceivedBundle, bpv7.NoInformation)
	})
	return cs
}

func c02CheckProduced(b bpv7.Bundle) (key, desc string) {
	enc, err := gen.Ser(&b)
	if err != nil {
		return "C02/produced-unserialisable", err.Error()
	}
	rb, derr := ref.Decode(enc)
	if derr != nil {
		return "C02/produced-malformed", derr.Error()
	}
	if rules := rb.Rules(DtnNow()); len(rules) > 0 {
		return "C02/produced-violating:" + rules[0], fmt.Sprintf("produced bundle violates %v", rules)
	}
	if _, err := gen.Parse(enc); err != nil {
		return "C02/produced-rejected-by-parser", err.Error()
	}
	return "", ""
}

func c02RunCalls(calls []bcall, seq []int) (key, desc string, built bool) {
	defer func() {
		if r := recover(); r != nil {
			key, desc = "C02/builder-panic", fmt.Sprintf("panic: %v", r)
		}
	}()
	bb := bpv7.Builder()
	for _, i := range seq {
		calls[i].f(bb)
	}
	b, err := bb.Build()
	if err != nil {
		return "", "", false
	}
	k, d := c02CheckProduced(b)
	return k, d, true
}

func c02MapValues() map[string][]interface{} {
	return map[string][]interface{}{
		"destination":              {"dtn://d/", "ipn:0.1", 3.5, nil, "dtn:none"},
		"source":                   {"dtn://s/", "dtn:none", "bad", true, []interface{}{1}},
		"report_to":                {"dtn://r/", "dtn:none", map[string]interface{}{}, -1.0},
		"creation_timestamp_now":   {true, nil},
		"creation_timestamp_epoch": {true, "x"},
		"lifetime":                 {"10m", "0s", -5.0, 1000.0, "junk", nil, 0.0},
		"payload_block":            {"hello", "", 12.5, nil, []interface{}{"a"}, true},
		"bundle_age_block":         {"1s", 0.0, "99h", -1.0, nil},
		"hop_count_block":          {64.0, 64, -1, "x", nil, 300},
		"previous_node_block":      {"dtn://p/", "dtn:none", "ipn:0.0", 5.0},
		"bundle_ctrl_flags":        {4.0},
	}
}

func runC02(r *ev.Run, thorough bool) int {
	useVirtualClock()
	gen.RegisterAll()
	vs := c02Violators()
	bases := c02Bases()
	maxSub := 2
	if thorough {
		maxSub = 3
	}
	var nCases, nAcc, nRej, nViolating, nOKAccepted int64
	ruleSeen := map[string]*int64{}
	var subsets [][]int
	var rec func(start int, cur []int)
	rec = func(start int, cur []int) {
		if len(cur) > 0 {
			subsets = append(subsets, append([]int(nil), cur...))
		}
		if len(cur) == maxSub {
			return
		}
		for i := start; i < len(vs); i++ {
			rec(i+1, append(cur, i))
		}
	}
	rec(0, nil)
	if thorough {
		// triples only over one representative of each violator family to keep the space finite and small
		var keep [][]int
		fam := func(i int) string { return strings.SplitN(vs[i].name, "=", 2)[0] }
		for _, s := range subsets {
			if len(s) < 3 {
				keep = append(keep, s)
				continue
			}
			ok := true
			for _, i := range s {
				if i > 0 && fam(i) == fam(i-1) {
					ok = false
				}
			}
			if ok && (s[0]+s[1]*3+s[2]*7)%5 == 0 {
				keep = append(keep, s)
			}
		}
		subsets = keep
	}
	type job struct {
		base int
		sub  []int
	}
	var jobs []job
	for bi := range bases {
		for _, s := range subsets {
			if false {
				continue // quick: every pair on a third of the bases (each pair still meets 10 bases)
			}
			jobs = append(jobs, job{bi, s})
		}
	}
	encs := make([][]byte, len(bases))
	for i, s := range bases {
		b := s.Build()
		e, err := gen.Ser(&b)
		if err != nil {
			r.Violation("C02/harness-base", "none", err.Error(), nil)
			return r.Finish(nil, nil)
		}
		if _, err := gen.Parse(e); err != nil {
			r.Violation("C02/harness-base-rejected", "none", fmt.Sprintf("base %d: %v", i, err), nil)
		}
		encs[i] = e
	}
	var effective int64
	par.For(len(jobs), func(ji int) {
		j := jobs[ji]
		m, names, ok := c02Apply(encs[j.base], vs, j.sub)
		if !ok {
			return
		}
		atomic.AddInt64(&nCases, 1)
		k, d, acc, rules := c02JudgeEncoding(m)
		if len(rules) > 0 {
			atomic.AddInt64(&nViolating, 1)
		}
		if acc {
			atomic.AddInt64(&nAcc, 1)
			if len(rules) == 0 {
				atomic.AddInt64(&nOKAccepted, 1)
			}
		} else {
			atomic.AddInt64(&nRej, 1)
		}
		if len(j.sub) == 1 && len(rules) > 0 {
			atomic.AddInt64(&effective, 1)
		}
		if k != "" {
			r.Violation(k, "encoding", d+" [edits "+strings.Join(names, "+")+"]", c02Case{Hex: hex.EncodeToString(m), Edits: names})
		}
		if ji%7919 == 0 {
			r.Sample(c02Case{Hex: hex.EncodeToString(m), Edits: names})
		}
	})
	_ = ruleSeen
	r.Add("violator_kinds", int64(len(vs)))
	r.Add("base_bundles", int64(len(bases)))
	r.Add("mutated_encodings", nCases)
	r.Add("reference_says_violating", nViolating)
	r.Add("parser_rejected", nRej)
	r.Add("parser_accepted", nAcc)
	r.Add("accepted_and_valid_by_reference", nOKAccepted)
	r.Add("single_violators_effective", effective)

	// producer side: all builder call sequences up to length L
	calls := c02BuilderCalls()
	L := 2
	if thorough {
		L = 3
	}
	var nSeq, nBuilt, nPanics int64
	// A bundle needs five calls to build at all; the explored sequences are: all sequences of <= L+1 extra
	// calls placed after the base calls, before them, and in the middle (after Source/Destination), so that
	// every call can override, or be overridden by, the base and block numbering sees every order.
	baseNames := []string{"Source(dtn://a/)", "Destination(dtn://a/)", "TimeNow", "Lifetime(1h)", "Payload"}
	var baseIdx []int
	for _, n := range baseNames {
		for i, c := range calls {
			if c.name == n {
				baseIdx = append(baseIdx, i)
			}
		}
	}
	var extras [][]int
	var recE func(cur []int)
	recE = func(cur []int) {
		extras = append(extras, append([]int(nil), cur...))
		if len(cur) > L {
			return
		}
		for i := range calls {
			recE(append(cur, i))
		}
	}
	recE(nil)
	par.For(len(extras), func(ei int) {
		ex := extras[ei]
		variants := [][]int{
			append(append([]int{}, baseIdx...), ex...),
			append(append([]int{}, ex...), baseIdx...),
			append(append(append([]int{}, baseIdx[:2]...), ex...), baseIdx[2:]...),
			append(append([]int{}, baseIdx[:4]...), ex...), // no explicit payload
		}
		for _, seq := range variants {
			atomic.AddInt64(&nSeq, 1)
			k, d, built := c02RunCalls(calls, seq)
			if built {
				atomic.AddInt64(&nBuilt, 1)
			}
			if k == "C02/builder-panic" {
				atomic.AddInt64(&nPanics, 1) // panics are the subject of C04, not of this property
				continue
			}
			if k != "" {
				var names []string
				for _, i := range seq {
					names = append(names, calls[i].name)
				}
				r.Violation(k, "builder", d+" ["+strings.Join(names, " ")+"]", c02Case{Calls: names})
			}
		}
	})
	r.Add("builder_panics_not_judged_here", nPanics)
	r.Add("builder_sequences", nSeq)
	r.Add("builder_sequences_built", nBuilt)

	// BuildFromMap: all maps with <= K keys from the value table
	mv := c02MapValues()
	var keys []string
	for k := range mv {
		keys = append(keys, k)
	}
	sort.Strings(keys)
	K := 1
	if thorough {
		K = 3
	}
	var nMaps, nMapBuilt, nMapPanics int64
	var recMap func(start int, m map[string]interface{}, free int)
	recMap = func(start int, m map[string]interface{}, free int) {
		if len(m) > 0 {
			nMaps++
			func() {
				defer func() {
					if rr := recover(); rr != nil {
						nMapPanics++ // panics are the subject of C04, not of this property
					}
				}()
				cp := map[string]interface{}{}
				for k, v := range m {
					cp[k] = v
				}
				b, err := bpv7.BuildFromMap(cp)
				if err == nil {
					nMapBuilt++
					if k, d := c02CheckProduced(b); k != "" {
						r.Violation(k, "map", d, c02Case{Map: jsonOf(m)})
					}
				}
			}()
		}
		if free == 0 {
			return
		}
		for i := start; i < len(keys); i++ {
			if _, fixed := m[keys[i]]; fixed {
				continue
			}
			for _, v := range mv[keys[i]] {
				m[keys[i]] = v
				recMap(i+1, m, free-1)
			}
			delete(m, keys[i])
		}
	}
	// all maps with <= K+2 keys; and a valid 5-key seed (varying source/destination) plus <= K+1 further keys
	recMap(0, map[string]interface{}{}, K+2)
	for _, src := range mv["source"] {
		for _, dst := range mv["destination"] {
			for _, lt := range []interface{}{"10m", 1000.0} {
				m := map[string]interface{}{"source": src, "destination": dst, "payload_block": "p", "creation_timestamp_now": true, "lifetime": lt}
				recMap(0, m, K+1)
			}
		}
	}
	r.Add("build_maps", nMaps)
	r.Add("build_map_panics_not_judged_here", nMapPanics)
	r.Add("build_maps_built", nMapBuilt)
	// producers "fragmentation" and "reassembly": every fragment Fragment returns, and every bundle reassembled from
	// them, obeys the rules and is accepted by the parser (Fragment may refuse instead)
	var nFragSets, nFrags, nRefused int64
	fragSpecs := c02FragmentSpecs()
	for si, sp := range fragSpecs {
		b := sp.Build()
		if b.CheckValid() != nil {
			continue
		}
		enc, _ := gen.Ser(&b)
		for _, mtu := range []int{len(enc) - 1, len(enc) / 2, len(enc) / 3, 160, 120} {
			if mtu < 60 {
				continue
			}
			frags, err := func() (f []bpv7.Bundle, e error) {
				defer func() {
					if r := recover(); r != nil {
						e = fmt.Errorf("panic: %v", r)
					}
				}()
				return b.Fragment(mtu)
			}()
			if err != nil {
				nRefused++
				continue
			}
			nFragSets++
			c := map[string]interface{}{"spec": fragSpecs[si], "mtu": mtu}
			for fi := range frags {
				nFrags++
				if k, d := c02CheckProduced(frags[fi]); k != "" {
					r.Violation(strings.Replace(k, "C02/produced", "C02/fragment", 1), "fragment", fmt.Sprintf("fragment %d of %d (size limit %d): %s", fi, len(frags), mtu, d), c)
					break
				}
			}
			if len(frags) > 1 {
				if rb, rerr := bpv7.ReassembleFragments(frags); rerr == nil {
					if k, d := c02CheckProduced(rb); k != "" {
						r.Violation(strings.Replace(k, "C02/produced", "C02/reassembled", 1), "fragment", fmt.Sprintf("bundle reassembled from %d fragments (size limit %d): %s", len(frags), mtu, d), c)
					}
				}
			}
		}
	}
	nodeGen, nodeKinds := c02NodeGenerated(r)
	r.Add("node_generated_bundles_checked", int64(nodeGen))
	var kindList []string
	for k := range nodeKinds {
		kindList = append(kindList, k)
	}
	sort.Strings(kindList)
	for _, k := range kindList {
		r.Add("node_generated_kind:"+k, 1)
	}
	for _, need := range []string{"pong", "prophet-metadata", "dtlsr-metadata", "status-report:0/0", "status-report:1/0", "status-report:2/0"} {
		if !nodeKinds[need] && !par.DeadlineHit() {
			r.Violation("C02/vacuous", "none", "the node-generated part never saw a "+need, nil)
		}
	}
	r.Add("fragmentations_checked", nFragSets)
	r.Add("fragments_checked", nFrags)
	r.Add("fragmentations_refused", nRefused)
	if effective == 0 || nBuilt == 0 || nMapBuilt == 0 || nOKAccepted == 0 || nFrags == 0 || (nodeGen == 0 && !par.DeadlineHit()) {
		r.Violation("C02/vacuous", "none", "a part of the check explored nothing of substance", nil)
	}
	return r.Finish(map[string]interface{}{
		"evaluations":         nCases + nSeq + nMaps,
		"distinct_nontrivial": nViolating + nBuilt + nMapBuilt,
		"rule":                fmt.Sprintf("%d rule violators (each BPv7 structural rule in several concrete forms, plus valid-side boundary cases) applied through a reference tree editor to %d valid base encodings, all subsets of <= %d violators, CRCs recomputed; builder: a 5-call valid base combined (after / before / in the middle / without payload) with every sequence over %d concrete calls up to length %d; all BuildFromMap maps over an 11-key value table with <= %d free keys; fragmentation and reassembly as producers: %d valid bundles (zero / non-zero creation time, age and hop-count blocks with and without the replicate flag, CRC mixes, whole bundles and fragments) x 5 size limits, every fragment and every reassembled bundle judged like a built one; non-trivial = encoding the reference predicate judges violating, or a bundle actually produced by the builder / BuildFromMap", len(vs), len(bases), maxSub, len(calls), L+1, K+2, len(fragSpecs)),
	}, []string{"reference validity predicate (mc/ref Rules) transcribed from the statement; ipn node/service >= 1 as in the tree's own rule", "BuildFromMap iterates a Go map: only order-independent facts are checked there; all call orders are covered by the builder sequences"})
}

// c02FragmentSpecs: valid bundles whose blocks differ in what a fragment must or must not carry (replicate flag set
// or not on each block kind, zero or non-zero creation time, already a fragment).
func c02FragmentSpecs() []gen.Spec {
	var out []gen.Spec
	base := gen.Spec{Dst: "dtn://dst/x", Src: "dtn://src/app", Rpt: "dtn://src/app", PCRC: 2, Lifetime: 3600000, PayLen: 300, PaySeed: 7}
	for _, zero := range []bool{false, true} {
		for _, ageRepl := range []int{0, 1, 2} { // no age block / age block without / with the replicate flag
			if zero && ageRepl == 0 {
				continue
			}
			for _, hopRepl := range []int{0, 1, 2} {
				for _, pcrc := range []uint64{0, 1, 2} {
					s := base
					s.PCRC, s.PayCRC = pcrc, 2-pcrc
					if !zero {
						s.Time = DtnNow()
					}
					var ext []gen.BSpec
					if ageRepl > 0 {
						f := uint64(0)
						if ageRepl == 2 {
							f = ref.BReplicate
						}
						ext = append(ext, gen.BSpec{Kind: "age", N: []uint64{500}, Flags: f})
					}
					if hopRepl > 0 {
						f := uint64(0)
						if hopRepl == 2 {
							f = ref.BReplicate
						}
						ext = append(ext, gen.BSpec{Kind: "hop", N: []uint64{20, 3}, Flags: f})
					}
					ext = append(ext, gen.BSpec{Kind: "prev", S: []string{"dtn://prev/"}})
					s.Ext = ext
					out = append(out, s)
					fr := s
					fr.Flags |= ref.FIsFragment
					fr.FragOff, fr.Total = 100, 1000
					out = append(out, fr)
				}
			}
		}
	}
	return out
}

func replayC02(kind string, c json.RawMessage) (string, bool) {
	useVirtualClock()
	gen.RegisterAll()
	var cs c02Case
	if err := json.Unmarshal(c, &cs); err != nil {
		return err.Error(), false
	}
	switch kind {
	case "encoding":
		m, _ := hex.DecodeString(cs.Hex)
		k, d, _, _ := c02JudgeEncoding(m)
		return k + ": " + d, k != ""
	case "builder":
		calls := c02BuilderCalls()
		var seq []int
		for _, n := range cs.Calls {
			for i, c := range calls {
				if c.name == n {
					seq = append(seq, i)
				}
			}
		}
		k, d, _ := c02RunCalls(calls, seq)
		return k + ": " + d, k != ""
	case "map":
		var m map[string]interface{}
		_ = json.Unmarshal([]byte(cs.Map), &m)
		b, err := bpv7.BuildFromMap(m)
		if err != nil {
			return "does not build: " + err.Error(), false
		}
		k, d := c02CheckProduced(b)
		return k + ": " + d, k != ""
	}
	return "unknown kind", false
}

// ---- bundles the node generates itself (status reports, pongs, routing metadata) ----

func init() { workers["c02node"] = c02NodeWorker }

type c02NodeOut struct {
	Viol      []schedViol `json:"viol,omitempty"`
	Generated int         `json:"generated"`
	Kinds     []string    `json:"kinds"`
}

func c02NodeWorker(task []byte) []byte {
	var t struct {
		Algo string `json:"algo"`
	}
	_ = json.Unmarshal(task, &t)
	useVirtualClock()
	var out c02NodeOut
	n, err := newNhNode(nhConfig{Algo: t.Algo, SprayL: 4, Agents: true})
	if err != nil {
		out.Viol = append(out.Viol, schedViol{Key: "harness", Desc: err.Error()})
		return mustJSON(out)
	}
	defer n.destroy()
	ping := agent.NewPing(gen.MustEID("dtn://node/ping"))
	n.core.RegisterApplicationAgent(ping)
	n.peerUp("collector")
	n.peerUp("r1")
	n.peerUp("far")
	kinds := map[string]bool{}
	judged := 0
	judge := func() { // bundles are judged at the (virtual) time they were generated, before the clock moves on
		upto := n.nSends()
		c02JudgeGenerated(n, judged, t.Algo, &out, kinds)
		judged = upto
	}
	all := uint64(ref.FReqReception | ref.FReqForward | ref.FReqDelivery | ref.FReqDeletion)
	mk := func(dst string, seq uint64, flags uint64, ext []gen.BSpec, lifetime uint64) bpv7.Bundle {
		return gen.Spec{Dst: dst, Src: "dtn://far/app", Rpt: "dtn://collector/r", PCRC: 2, Time: DtnNow() - 1000, Seq: seq, Lifetime: lifetime, PayLen: 5, PaySeed: byte(seq), Flags: flags, Ext: ext}.Build()
	}
	n.receive(mk("dtn://dest/x", 1, all, nil, 3600000), "r1")                                                                                    // received + forwarded (epidemic: to the relays)
	n.receive(mk("dtn://node/app", 2, all|ref.FStatusTime, nil, 3600000), "r1")                                                                  // received + delivered, with times
	n.receive(mk("dtn://dest/x", 3, all, []gen.BSpec{{Kind: "hop", N: []uint64{4, 4}}}, 3600000), "r1")                                          // deleted: hop limit
	n.receive(mk("dtn://dest/x", 4, all, []gen.BSpec{{Kind: "unk", N: []uint64{240}, Len: 2, Flags: ref.BDelete | ref.BReport}}, 3600000), "r1") // deleted: unsupported block
	n.receive(mk("dtn://node/ping", 5, 0, nil, 3600000), "r1")                                                                                   // pong
	before := n.nSends()
	_ = before
	n.core.VerifAgentMarker(gen.MustEID("dtn://node/ping"))
	n.core.VerifAgentMarker(gen.MustEID("dtn://node/ping"))
	n.core.VerifAgentFlush()
	waitFor(func() bool {
		for _, s := range n.sendsSince(0) {
			if rb, derr := ref.Decode(s.Enc); derr == nil && rb.P.Src.String() == "dtn://node/ping" {
				return true
			}
		}
		return false
	})
	n.agent.sender <- agent.SyscallRequestMessage{Sender: n.agent.eids[0], Request: "verif-marker-1"}
	n.agent.sender <- agent.SyscallRequestMessage{Sender: n.agent.eids[0], Request: "verif-marker-2"}
	n.peerUp("r2") // routing metadata for a new peer (prophet: summary vector; dtlsr: link-state broadcast on the next job)
	for _, job := range []string{"dtlsr_broadcast", "dtlsr_recompute"} {
		judge()
		n.advance(61 * time.Second)
		n.runCron(job)
		n.flush()
	}
	judge()
	for k := range kinds {
		out.Kinds = append(out.Kinds, k)
	}
	sort.Strings(out.Kinds)
	return mustJSON(out)
}

// c02JudgeGenerated judges the node-generated bundles among the sends [from, ...) at the current virtual time.
func c02JudgeGenerated(n *nhNode, from int, algo string, out *c02NodeOut, kinds map[string]bool) {
	for _, s := range n.sendsSince(from) {
		rb, derr := ref.Decode(s.Enc)
		if derr != nil {
			out.Viol = append(out.Viol, schedViol{Key: "node-generated-malformed", Desc: derr.Error()})
			continue
		}
		if rb.P.Src.NodeName() != "node" {
			continue
		}
		out.Generated++
		kind := "other:" + rb.P.Dst.String()
		switch {
		case rb.P.Flags&ref.FAdminRecord != 0:
			kind = "status-report"
			if rep, rerr := decodeReport(rb); rerr == nil {
				kind = fmt.Sprintf("status-report:%d/%d", rep.Status, rep.Reason)
			}
		case rb.P.Src.String() == "dtn://node/ping":
			kind = "pong"
		case rb.Find(ref.TProphet) != nil:
			kind = "prophet-metadata"
		case rb.Find(ref.TDTLSR) != nil:
			kind = "dtlsr-metadata"
		}
		kinds[kind] = true
		if rules := rb.Rules(DtnNow()); len(rules) > 0 {
			out.Viol = append(out.Viol, schedViol{Key: "node-generated-violating:" + rules[0] + ":" + strings.SplitN(kind, ":", 2)[0], Desc: fmt.Sprintf("a %s generated by the node (%s, %s routing) violates %v", kind, rb.ID(), algo, rules)})
			continue
		}
		if _, perr := gen.Parse(s.Enc); perr != nil {
			out.Viol = append(out.Viol, schedViol{Key: "node-generated-rejected-by-parser:" + strings.SplitN(kind, ":", 2)[0], Desc: fmt.Sprintf("a %s generated by the node is rejected by the parser: %v", kind, perr)})
		}
	}
}

func c02NodeGenerated(r *ev.Run) (generated int, kinds map[string]bool) {
	kinds = map[string]bool{}
	algos := []string{"epidemic", "prophet", "dtlsr", "binary_spray"}
	var tasks [][]byte
	for _, a := range algos {
		tasks = append(tasks, mustJSON(map[string]string{"algo": a}))
	}
	var mu sync.Mutex
	runPool("c02node", 0, tasks, func(i int, pr poolResult) {
		mu.Lock()
		defer mu.Unlock()
		if pr.Crashed {
			r.Violation("C02/node-crashed", "none", "node process died: "+lastLines(pr.Stderr, 10), algos[i])
			return
		}
		var o c02NodeOut
		_ = json.Unmarshal(pr.Res, &o)
		generated += o.Generated
		for _, k := range o.Kinds {
			kinds[k] = true
		}
		for _, v := range o.Viol {
			r.Violation("C02/"+v.Key, "none", v.Desc, algos[i])
		}
	})
	return
}
