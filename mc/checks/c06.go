package checks

import (
	"bytes"
	"encoding/json"
	"fmt"
	"strings"
	"sync"
	"time"

	"github.com/dtn7/dtn7-go/pkg/bpv7"
	"github.com/dtn7/dtn7-go/verif/ev"
	"github.com/dtn7/dtn7-go/verif/gen"
	"github.com/dtn7/dtn7-go/verif/ref"
	"github.com/dtn7/dtn7-go/verif/vtime"
)

func init() {
	All["C06"] = Check{Level: "exploration", Run: runC06, Replay: replayC06}
	workers["c06"] = c06Worker
}

// c06Case is one forwarding scenario on a live node.
type c06Case struct {
	Shape     int    `json:"shape"` // index into c06Shapes
	HasHop    bool   `json:"has_hop"`
	Limit     uint64 `json:"limit"`
	Count     uint64 `json:"count"`
	ZeroTime  bool   `json:"zero_time"`
	Age       uint64 `json:"age"` // received bundle age in ms (if age block present)
	HasAge    bool   `json:"has_age"`
	Residence int64  `json:"residence_ms"`
	LifeDelta int64  `json:"life_delta_ms"` // lifetime = time needed to still be alive at the (first) send + delta; <0 => expired by then
	Attempts  int    `json:"attempts"`      // the n-th attempt succeeds (1 = first)
	Direct    bool   `json:"direct"`        // destination connected (direct delivery) instead of a relay
}

type c06Task struct {
	Algo  string    `json:"algo"`
	Cases []c06Case `json:"cases"`
}

type c06Out struct {
	Viol  []schedViol `json:"viol,omitempty"`
	Sends int         `json:"sends"`
	Drops int         `json:"drops"`
	Sigs  []string    `json:"sigs,omitempty"`
}

// shapes: which other blocks the received bundle carries
type c06Shape struct {
	name string
	ext  []gen.BSpec
	prev bool
	pcrc uint64
	bcrc uint64
}

func c06Shapes() []c06Shape {
	return []c06Shape{
		{"plain", nil, false, 2, 0},
		{"prev", nil, true, 2, 0},
		{"prev+crc16", nil, true, 1, 1},
		{"unknown-keep", []gen.BSpec{{Kind: "unk", N: []uint64{222}, Len: 7}}, true, 2, 2},
		{"unknown-remove", []gen.BSpec{{Kind: "unk", N: []uint64{223}, Len: 5, Flags: ref.BRemove}}, false, 2, 0},
		{"unknown-replicate+report", []gen.BSpec{{Kind: "unk", N: []uint64{224}, Len: 3, Flags: ref.BReplicate | ref.BReport}}, true, 2, 1},
		{"two-unknown", []gen.BSpec{{Kind: "unk", N: []uint64{225}, Len: 3, Flags: ref.BRemove}, {Kind: "unk", N: []uint64{226}, Len: 30}}, false, 1, 2},
		// adjacent blocks flagged for removal (a removal loop must not skip the neighbour of a removed block),
		// with a kept block in between and at both ends
		{"adjacent-remove", []gen.BSpec{{Kind: "unk", N: []uint64{227}, Len: 3, Flags: ref.BRemove}, {Kind: "unk", N: []uint64{228}, Len: 4, Flags: ref.BRemove},
			{Kind: "unk", N: []uint64{229}, Len: 2}, {Kind: "unk", N: []uint64{230}, Len: 1, Flags: ref.BRemove}, {Kind: "unk", N: []uint64{231}, Len: 1, Flags: ref.BRemove}, {Kind: "unk", N: []uint64{232}, Len: 1, Flags: ref.BRemove}}, true, 2, 1},
	}
}

var c06Seq uint64

func c06BuildSpec(cs c06Case, now time.Time) gen.Spec {
	sh := c06Shapes()[cs.Shape]
	c06Seq++
	s := gen.Spec{Dst: "dtn://dest/x", Src: "dtn://far/app", Rpt: "dtn://far/app", PCRC: sh.pcrc, PayCRC: sh.bcrc, PayLen: 9, PaySeed: byte(c06Seq), Seq: c06Seq}
	for _, b := range sh.ext {
		b.CRC = sh.bcrc
		s.Ext = append(s.Ext, b)
	}
	if sh.prev {
		s.Ext = append(s.Ext, gen.BSpec{Kind: "prev", S: []string{"dtn://r1/"}, CRC: sh.bcrc})
	}
	if cs.HasHop {
		s.Ext = append(s.Ext, gen.BSpec{Kind: "hop", N: []uint64{cs.Limit, cs.Count}, CRC: sh.bcrc})
	}
	if cs.HasAge || cs.ZeroTime {
		s.Ext = append(s.Ext, gen.BSpec{Kind: "age", N: []uint64{cs.Age}, Flags: ref.BReplicate, CRC: sh.bcrc})
	}
	nowDtn := uint64(now.UnixNano()/1e6) - 946684800000
	// lifetime chosen relative to the instant of the first send attempt (reception + residence)
	if cs.ZeroTime {
		s.Time = 0
		s.Lifetime = uint64(int64(cs.Age) + cs.Residence + cs.LifeDelta)
	} else {
		s.Time = nowDtn - 5000 // created five seconds before reception
		s.Lifetime = uint64(5000 + cs.Residence + cs.LifeDelta)
	}
	return s
}

func c06Run(n *nhNode, algo string, cs c06Case) (key, desc string, nsend int, dropped bool) {
	defer func() {
		if r := recover(); r != nil {
			key, desc = "panic", fmt.Sprint(r)
		}
	}()
	target := "r2"
	if cs.Direct {
		target = "dest"
	}
	t0 := vtime.Now()
	spec := c06BuildSpec(cs, t0)
	in := spec.Build()
	if err := in.CheckValid(); err != nil {
		return "", "", 0, false // not a receivable bundle (e.g. lifetime already over at reception): outside this property
	}
	accepted, _ := gen.Ser(&in)
	accRef, _ := ref.Decode(accepted)
	n.setOutcome(target, cs.Attempts <= 1)
	before := n.nSends()
	n.receive(in, "r1")
	n.advance(time.Duration(cs.Residence) * time.Millisecond)
	n.peerUp(target)
	for a := 2; a <= cs.Attempts; a++ {
		n.advance(time.Second)
		n.setOutcome(target, a == cs.Attempts)
		n.retryTick()
	}
	sends := n.sendsSince(before)
	bid := in.ID().Scrub()
	// cleanup for the next case
	defer func() {
		n.peerDown(target)
		_ = n.core.VerifStore().Delete(bid)
	}()
	// expectation
	hopExceeded := cs.HasHop && cs.Count+1 > cs.Limit
	expired := cs.LifeDelta < 0
	var mine []nhSend
	for _, s := range sends {
		rb, err := ref.Decode(s.Enc)
		if err != nil {
			return "sent-bytes-undecodable", err.Error(), 0, false
		}
		if rb.P.Src.String() == "dtn://far/app" && rb.P.Seq == spec.Seq {
			mine = append(mine, s)
		}
	}
	nsend = len(mine)
	if hopExceeded || expired {
		why := "hop-limit"
		if !hopExceeded {
			why = "lifetime"
			if cs.ZeroTime {
				why = "lifetime-by-age"
			}
		}
		if len(mine) > 0 {
			return "transmitted-although-" + why + "-exceeded", fmt.Sprintf("bundle (hop %d/%d, residence %dms, lifetime delta %dms) was handed to %s", cs.Count, cs.Limit, cs.Residence, cs.LifeDelta, target), nsend, false
		}
		if n.core.VerifStore().KnowsBundle(bid) {
			// an expired bundle may wait for the store-cleaning job; after that job it must be gone
			n.cleanTick()
		}
		if n.core.VerifStore().KnowsBundle(bid) {
			return "not-dropped-although-" + why + "-exceeded", "the refused bundle is still in the store, also after the store-cleaning job", 0, false
		}
		return "", "", 0, true
	}
	if len(mine) != cs.Attempts {
		return "unexpected-number-of-transmissions", fmt.Sprintf("expected %d transmissions to %s (attempts), saw %d", cs.Attempts, target, len(mine)), nsend, false
	}
	for k, s := range mine {
		if _, err := gen.Parse(s.Enc); err != nil {
			return "forwarded-bundle-rejected-by-parser", err.Error(), nsend, false
		}
		rb, _ := ref.Decode(s.Enc)
		if bad, _ := ref.CRCMismatches(s.Enc); len(bad) > 0 {
			return "forwarded-bundle-bad-crc", fmt.Sprint(bad), nsend, false
		}
		if !bytes.Equal(s.Enc[rb.PStart:rb.PEnd], accepted[accRef.PStart:accRef.PEnd]) {
			return "primary-block-changed", fmt.Sprintf("attempt %d", k+1), nsend, false
		}
		pa, _ := accRef.Payload()
		pb, _ := rb.Payload()
		if !bytes.Equal(pa, pb) {
			return "payload-changed", "", nsend, false
		}
		residence := uint64(s.At.Sub(t0) / time.Millisecond)
		seen := map[uint64]bool{}
		for _, bl := range rb.Blocks {
			seen[bl.Type] = true
			ob := accRef.Find(bl.Type)
			switch bl.Type {
			case ref.TPayload:
				if ob.Flags != bl.Flags || ob.CRCType != bl.CRCType {
					return "payload-block-header-changed", "", nsend, false
				}
			case ref.THopCount:
				it, _ := ref.Tokenize(bl.Data, 0, 0)
				if ob == nil || len(it.Kids) != 2 || it.Kids[0].Val != cs.Limit || it.Kids[1].Val != cs.Count+1 {
					return fmt.Sprintf("hop-count-wrong:attempt%d", k+1), fmt.Sprintf("received %d/%d, attempt %d carries %v", cs.Count, cs.Limit, k+1, it.Kids), nsend, false
				}
			case ref.TPrevNode:
				want := &ref.Enc{}
				ref.Dtn("//node/").Encode(want)
				if !bytes.Equal(bl.Data, want.B) {
					return "previous-node-not-this-node", fmt.Sprintf("%x", bl.Data), nsend, false
				}
			case ref.TAge:
				it, _ := ref.Tokenize(bl.Data, 0, 0)
				if ob == nil || it.Val != cs.Age+residence {
					return "bundle-age-wrong", fmt.Sprintf("received age %d ms, %d ms at this node, attempt %d carries %d ms", cs.Age, residence, k+1, it.Val), nsend, false
				}
			case ref.TSpray, ref.TDTLSR, ref.TProphet:
				// owned by the routing algorithm
			default:
				if ob == nil {
					return "foreign-block-appeared", fmt.Sprintf("type %d", bl.Type), nsend, false
				}
				if ob.Flags&ref.BRemove != 0 {
					return "remove-flagged-unknown-block-forwarded", fmt.Sprintf("type %d", bl.Type), nsend, false
				}
				if !bytes.Equal(ob.Data, bl.Data) || ob.Flags != bl.Flags || ob.CRCType != bl.CRCType {
					return "unknown-block-changed", fmt.Sprintf("type %d", bl.Type), nsend, false
				}
			}
		}
		if !seen[ref.TPrevNode] {
			return "previous-node-block-missing", "", nsend, false
		}
		for _, ob := range accRef.Blocks {
			if !seen[ob.Type] && ob.Type != ref.TPrevNode && !(ob.Type >= 200 && ob.Flags&ref.BRemove != 0) {
				return "block-lost", fmt.Sprintf("type %d of the accepted bundle is missing in the forwarded one", ob.Type), nsend, false
			}
		}
	}
	return "", "", nsend, false
}

func c06Worker(task []byte) []byte {
	var t c06Task
	var out c06Out
	if err := json.Unmarshal(task, &t); err != nil {
		out.Viol = append(out.Viol, schedViol{Key: "harness", Desc: err.Error()})
		return mustJSON(out)
	}
	useVirtualClock()
	n, err := newNhNode(nhConfig{Algo: t.Algo, SprayL: 4})
	if err != nil {
		out.Viol = append(out.Viol, schedViol{Key: "harness-open", Desc: err.Error()})
		return mustJSON(out)
	}
	defer n.destroy()
	sigs := map[string]bool{}
	for _, cs := range t.Cases {
		k, d, ns, dropped := c06Run(n, t.Algo, cs)
		out.Sends += ns
		if dropped {
			out.Drops++
		}
		sigs[fmt.Sprintf("%d/%v/%v/%d/%v", cs.Shape, cs.HasHop, cs.ZeroTime, ns, dropped)] = true
		if k != "" && len(out.Viol) < 30 {
			out.Viol = append(out.Viol, schedViol{Key: k, Desc: fmt.Sprintf("%s [%s, case %s]", d, t.Algo, jsonOf(cs))})
		}
	}
	for s := range sigs {
		out.Sigs = append(out.Sigs, s)
	}
	return mustJSON(out)
}

func runC06(r *ev.Run, thorough bool) int {
	var cases []c06Case
	hops := []uint64{0, 1, 2, 127, 128, 254, 255}
	shapes := c06Shapes()
	// hop count x limit
	for _, l := range hops {
		for _, c := range hops {
			if c <= l {
				for _, att := range []int{1, 2, 3} {
					cases = append(cases, c06Case{Shape: (int(l+c) + att) % len(shapes), HasHop: true, Limit: l, Count: c, Residence: 0, LifeDelta: 60000, Attempts: att, Direct: (l+c)%2 == 0})
				}
			}
		}
	}
	if thorough {
		for l := uint64(0); l <= 255; l++ {
			for c := uint64(0); c <= l; c++ {
				cases = append(cases, c06Case{Shape: int(l+c) % len(shapes), HasHop: true, Limit: l, Count: c, LifeDelta: 60000, Attempts: 1 + int(l+c)%2, Direct: c%2 == 0})
			}
		}
	}
	// shapes x age / residence / lifetime boundaries x attempts
	for si := range shapes {
		for _, res := range []int64{0, 1, 999, 1000, 7000} {
			for _, ld := range []int64{-1, 1, 60000} {
				for _, att := range []int{1, 2, 3} {
					if ld < 60000 && att > 1 {
						continue // boundary cases are judged at the first attempt
					}
					for _, mode := range []int{0, 1, 2} { // no age block, age block with clock, clock-less
						cs := c06Case{Shape: si, Residence: res, LifeDelta: ld, Attempts: att, Direct: (si+att)%2 == 0}
						switch mode {
						case 1:
							cs.HasAge, cs.Age = true, 4000
						case 2:
							cs.ZeroTime, cs.HasAge, cs.Age = true, true, 250
						}
						if si%2 == 1 {
							cs.HasHop, cs.Limit, cs.Count = true, 30, 29
						}
						cases = append(cases, cs)
					}
				}
			}
		}
	}
	algos := []string{"epidemic", "spray", "binary_spray", "prophet", "dtlsr", "sensor-mule"}
	var tasks []c06Task
	for _, a := range algos {
		var cs []c06Case
		for _, c := range cases {
			if !c.Direct && (a == "prophet" || a == "dtlsr" || a == "spray") {
				c.Direct = true // these algorithms hand a received bundle to a relay only with routing state (spray: never, it is in its wait phase); their forwarding path is exercised by direct delivery
			}
			cs = append(cs, c)
		}
		for i := 0; i < len(cs); i += 150 {
			j := i + 150
			if j > len(cs) {
				j = len(cs)
			}
			tasks = append(tasks, c06Task{Algo: a, Cases: cs[i:j]})
		}
	}
	raw := make([][]byte, len(tasks))
	for i, t := range tasks {
		raw[i] = mustJSON(t)
	}
	var mu sync.Mutex
	sends, drops := 0, 0
	sigs := map[string]bool{}
	runPool("c06", 0, raw, func(i int, pr poolResult) {
		mu.Lock()
		defer mu.Unlock()
		if pr.Crashed {
			r.Violation("C06/node-crashed", "batch", "node process died: "+lastLines(pr.Stderr, 12), tasks[i])
			return
		}
		var o c06Out
		_ = json.Unmarshal(pr.Res, &o)
		sends += o.Sends
		drops += o.Drops
		for _, s := range o.Sigs {
			sigs[tasks[i].Algo+"/"+s] = true
		}
		for _, v := range o.Viol {
			key := v.Key
			r.Violation("C06/"+key, "case", v.Desc, map[string]interface{}{"algo": tasks[i].Algo, "desc": v.Desc})
		}
		if i%7 == 0 && len(tasks[i].Cases) > 0 {
			r.Sample(map[string]interface{}{"algo": tasks[i].Algo, "case": tasks[i].Cases[len(tasks[i].Cases)/2]})
		}
	})
	// E3: the bundle is handed to two (thorough: three) relays at once - all schedules of Core.forward's sender
	// threads up to the preemption bound: every relay gets hop count received+1
	sb, sbud := 2, 1500
	if thorough {
		sb, sbud = 3, 60000
	}
	sexecs := nhSchedRun(r, "C06", nhConcArg{Algo: "epidemic", Mode: "hops", Peers: 2}, sb, sbud)
	if thorough {
		sexecs += nhSchedRun(r, "C06", nhConcArg{Algo: "epidemic", Mode: "hops", Peers: 3}, 2, sbud)
	}
	r.Add("cases_per_algorithm", int64(len(cases)))
	r.Add("transmissions_checked", int64(sends))
	r.Add("refusals_checked", int64(drops))
	if sends == 0 || drops == 0 {
		r.Violation("C06/vacuous", "none", "no transmission or no refusal observed", nil)
	}
	return r.Finish(map[string]interface{}{
		"evaluations":         len(cases)*len(algos) + sexecs,
		"schedules":           sexecs,
		"distinct_nontrivial": len(sigs),
		"rule":                fmt.Sprintf("%d forwarding scenarios per routing algorithm on a live routing.Core: received bundle shapes (with/without previous-node, unknown blocks with keep/remove/replicate/report flags, CRC mixes) x hop count/limit over %v (thorough: the full 0..255 triangle) x bundle-age modes (none / with clock / clock-less) x residence {0,1,999,1000,7000} ms x lifetime ending 1 ms before / 1 ms after / long after the send x first, second and third attempt x direct delivery or relay; every byte string handed to the mock convergence sender is parsed and compared block by block with the accepted bundle; distinct_nontrivial = distinct (algorithm, shape, hop, clock mode, number of sends, refused) signatures observed", len(cases), hops),
	}, []string{"one long-lived node per batch of 150 scenarios (distinct bundle IDs, store cleaned after each)", "equality of lifetime and elapsed time is not tested (the statement does not fix the boundary); +-1 ms is", strings.TrimSpace("virtual clock decides residence times exactly")})
}

func replayC06(kind string, c json.RawMessage) (string, bool) {
	if kind == "sched" {
		return c08ReplaySched(c)
	}
	return "C06 cases are enumerated deterministically: re-run the check (the violating scenario is described in the artefact)", false
}

var _ = bpv7.DtnNone
