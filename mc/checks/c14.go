package checks

import (
	"bytes"
	"fmt"
	"github.com/dtn7/dtn7-go/pkg/bpv7"
	"sort"
	"strings"

	"github.com/dtn7/dtn7-go/verif/ev"
	"github.com/dtn7/dtn7-go/verif/gen"
	"github.com/dtn7/dtn7-go/verif/ref"
)

func init() {
	All["C14"] = Check{Level: "model_checking", Run: runC14, Replay: nhReplayAny}
	nhChecks["c14"] = c14Def
}

func c14Def() nhCheckDef {
	// four application bundles with identical source and creation time (the clock is frozen), distinct payloads;
	// one of them clock-less; two received bundles that request a reception report (the node originates the reports)
	mk := func(seed byte, zero bool) nhBundle {
		s := gen.Spec{Dst: "dtn://dest/x", Src: "dtn://node/app", Rpt: "dtn://node/app", PCRC: 2, Lifetime: 3600000, PayLen: 6, PaySeed: seed}
		if zero {
			s.Ext = []gen.BSpec{{Kind: "age", N: []uint64{0}, Flags: ref.BReplicate}}
		}
		return nhBundle{Spec: s, Local: true, Dest: "dest", ZeroTime: zero}
	}
	rq := func(seed byte) nhBundle {
		s := gen.Spec{Dst: "dtn://dest/x", Src: fmt.Sprintf("dtn://far%d/app", seed), Rpt: "dtn://collector/r", PCRC: 2, Lifetime: 3600000, PayLen: 6, PaySeed: seed, Flags: ref.FReqReception}
		return nhBundle{Spec: s, Dest: "dest"}
	}
	bs := []nhBundle{mk(10, false), mk(20, false), mk(30, false), mk(40, true), mk(50, true), rq(60), rq(70), mk(80, true), mk(90, true)}
	// the last two clock-less bundles go to another node, so that they can be delivered (and purged) while an older
	// clock-less bundle for the first destination is still on file
	for _, i := range []int{7, 8} {
		bs[i].Spec.Dst = "dtn://dest2/x"
		bs[i].Dest = "dest2"
	}
	// two anonymous bundles (source dtn:none) with the same creation time and different report-to endpoints
	for k, rpt := range []string{"dtn://node/app", "dtn://collector/r"} {
		s := gen.Spec{Dst: "dtn://dest/x", Src: "dtn:none", Rpt: rpt, PCRC: 2, Lifetime: 3600000, PayLen: 6, PaySeed: byte(100 + 10*k), Flags: 4}
		bs = append(bs, nhBundle{Spec: s, Local: true, Dest: "dest"})
	}
	bs[1].Spec.Seq = 1 // an application may preset a sequence number; it must not clash with assigned ones
	var scs []nhScenario
	for _, a := range []string{"epidemic", "spray"} {
		scs = append(scs, nhScenario{Cfg: nhConfig{Algo: a, SprayL: 3, Agents: true}, Bundles: bs})
	}
	return nhCheckDef{Scenarios: scs, Oracle: c14Oracle}
}

func c14Alphabet() []nhEvent {
	return []nhEvent{
		{Op: "submit", B: 0}, {Op: "submit", B: 1}, {Op: "agent", B: 2}, {Op: "submit", B: 3}, {Op: "agent", B: 4}, {Op: "submit", B: 7}, {Op: "submit", B: 8}, {Op: "up", P: "dest2"}, {Op: "submit", B: 9}, {Op: "submit", B: 10},
		{Op: "receive", B: 5, P: "r1", Q: "r1"}, {Op: "receive", B: 6, P: "r1", Q: "r1"},
		{Op: "up", P: "dest"}, {Op: "up", P: "r2"}, {Op: "up", P: "collector"}, {Op: "fail", P: "dest"}, {Op: "fail", P: "r2"}, {Op: "ok", P: "r2"},
		{Op: "retry"}, {Op: "restart1s"},
	}
}

// c14Oracle: distinct bundles originated at the node have distinct IDs in the store and on the wire; the sequence
// number on the wire is the one of the store key.
func c14Oracle(r *nhRun) (string, string) {
	e := r.steps[len(r.steps)-1].Event
	// wire: ID <-> content must be a bijection over everything ever sent by this node with a local source
	idToPayload := map[string]string{}
	payloadToID := map[string]string{}
	var all []nhSend
	for _, st := range r.steps {
		all = append(all, st.Sends...)
	}
	for _, s := range all {
		rb, err := ref.Decode(s.Enc)
		if err != nil {
			return "undecodable-send", err.Error()
		}
		if rb.P.Src.NodeName() != "node" && rb.P.Src.String() != "dtn:none" {
			continue
		}
		id := rb.ID()
		pl, _ := rb.Payload()
		content := fmt.Sprintf("%x|%s|%x", pl, rb.P.Dst, rb.P.Flags)
		if other, ok := idToPayload[id]; ok && other != content {
			kind := "application"
			if rb.P.Flags&ref.FAdminRecord != 0 {
				kind = "status-report"
			}
			// narrow class: a clock-less bundle was delivered and purged, the node restarted (its sequence counters
			// live in memory only), and a later clock-less bundle of the same source got the forgotten ID again
			if kind == "application" && rb.P.Time == 0 {
				first, second := c14SubmitStep(r, strings.SplitN(other, "|", 2)[0]), c14SubmitStep(r, fmt.Sprintf("%x", pl))
				restartBetween := false
				for k := first + 1; first >= 0 && k < second; k++ {
					restartBetween = restartBetween || strings.HasPrefix(r.steps[k].Event.Op, "restart")
				}
				onFile := false
				if pend, perr := r.n.core.VerifStore().QueryPending(); perr == nil {
					for _, bi := range pend {
						if len(bi.Parts) == 1 {
							if sb, lerr := bi.Parts[0].Load(); lerr == nil && fmt.Sprintf("%x", payloadOf(&sb)) == strings.SplitN(other, "|", 2)[0] {
								onFile = true
							}
						}
					}
				}
				if restartBetween && !onFile {
					return "two-bundles-one-id-on-the-wire:zero-time:id-of-purged-bundle-reused-after-restart", fmt.Sprintf("two different clock-less bundles left the node under the ID %s: the first was transmitted and purged, the node restarted, and the second was given the same sequence number again", id)
				}
			}
			return "two-bundles-one-id-on-the-wire:" + kind, fmt.Sprintf("two different bundles left the node under the ID %s", id)
		}
		idToPayload[id] = content
		if rb.P.Flags&ref.FAdminRecord != 0 {
			continue // two reports about two events may have identical content; only ID -> content is judged for them
		}
		if other, ok := payloadToID[content]; ok && other != id {
			return "one-bundle-two-ids-on-the-wire", fmt.Sprintf("the same bundle was transmitted as %s and as %s", other, id)
		}
		payloadToID[content] = id
	}
	// store: every submitted bundle that has not been transmitted successfully is filed under its own key,
	// and the payload loaded under that key is the one submitted
	pending, err := r.n.core.VerifStore().QueryPending()
	if err != nil {
		return "query-pending-failed", err.Error()
	}
	stored := map[string]string{} // payload hex -> store id
	for _, bi := range pending {
		if len(bi.Parts) == 0 {
			continue
		}
		b, lerr := bi.Parts[0].Load()
		if lerr != nil {
			return "stored-bundle-unreadable", lerr.Error()
		}
		if (b.PrimaryBlock.SourceNode.Authority() != "node" && b.PrimaryBlock.SourceNode != bpv7.DtnNone()) || b.IsAdministrativeRecord() {
			continue
		}
		pl := fmt.Sprintf("%x", payloadOf(&b))
		if other, ok := stored[pl]; ok {
			return "one-bundle-two-store-keys", fmt.Sprintf("payload %s is filed under %s and %s", pl, other, bi.Id)
		}
		stored[pl] = bi.Id
		// the key is derived from the ID the bundle carries
		want := b.ID().Scrub().String()
		if bi.Id != want {
			return "store-key-differs-from-bundle-id", fmt.Sprintf("store key %s holds a bundle whose ID is %s", bi.Id, want)
		}
	}
	var missing []string
	for i, t := range r.tr {
		if !t.Accepted || !r.sc.Bundles[i].Local {
			continue
		}
		pl := fmt.Sprintf("%x", gen.Payload(r.sc.Bundles[i].Spec.PayLen, r.sc.Bundles[i].Spec.PaySeed))
		sentOK := false
		for _, s := range all {
			if s.OK && bytes.Contains(s.Enc, gen.Payload(r.sc.Bundles[i].Spec.PayLen, r.sc.Bundles[i].Spec.PaySeed)) {
				sentOK = true
			}
		}
		if _, ok := stored[pl]; !ok && !sentOK {
			missing = append(missing, fmt.Sprintf("b%d", i))
		}
		// wire sequence number == store key sequence number on every (re)transmission
		if id, ok := stored[pl]; ok {
			for _, s := range all {
				if bytes.Contains(s.Enc, gen.Payload(r.sc.Bundles[i].Spec.PayLen, r.sc.Bundles[i].Spec.PaySeed)) {
					rb, _ := ref.Decode(s.Enc)
					if rb.ID() != id {
						return "wire-id-differs-from-store-key", fmt.Sprintf("b%d is stored as %s but was transmitted as %s", i, id, rb.ID())
					}
				}
			}
		}
	}
	if len(missing) > 0 {
		sort.Strings(missing)
		kind := "same-millisecond"
		for _, m := range missing {
			if m == "b3" || m == "b4" || m == "b7" || m == "b8" {
				kind = "zero-time"
			}
		}
		for _, st := range r.steps {
			if st.Event.Op == "restart1s" {
				kind += ":after-restart"
				break
			}
		}
		return "submitted-bundle-has-no-store-record:" + kind + ":after-" + e.Op, fmt.Sprintf("bundles %v were submitted and never transmitted successfully, but no store record holds their payload (store has %d application records)", missing, len(stored))
	}
	return "", ""
}

func runC14(r *ev.Run, thorough bool) int {
	depth, budget := 3, 4000
	if thorough {
		depth, budget = 5, 300000
	}
	var plans []nhPlan
	for si := 0; si < 2; si++ {
		if si == 1 && !thorough {
			continue
		}
		plans = append(plans, nhPlan{Scenario: si, Alphabet: c14Alphabet(), Depth: depth, Budget: budget})
		plans = append(plans, nhPlan{Scenario: si, Root: []nhEvent{{Op: "up", P: "r2"}, {Op: "fail", P: "r2"}, {Op: "up", P: "collector"}}, Alphabet: c14Alphabet(), Depth: depth, Budget: budget})
		plans = append(plans, nhPlan{Scenario: si, Root: []nhEvent{{Op: "up", P: "dest"}}, Alphabet: c14Alphabet(), Depth: depth, Budget: budget})
		// two clock-less bundles are on file, the one with the lower number is delivered and purged, the node restarts
		plans = append(plans, nhPlan{Scenario: si, Root: []nhEvent{{Op: "submit", B: 7}, {Op: "submit", B: 3}, {Op: "up", P: "dest2"}, {Op: "restart1s"}}, Alphabet: c14Alphabet(), Depth: depth - 1, Budget: budget})
		// two clock-less bundles of one source wait in the store across a restart
		plans = append(plans, nhPlan{Scenario: si, Root: []nhEvent{{Op: "submit", B: 3}, {Op: "agent", B: 4}, {Op: "restart1s"}}, Alphabet: c14Alphabet(), Depth: depth - 1, Budget: budget})
		// a clock-less bundle waits in the store, the node restarts, another destination connects: later clock-less
		// submissions for it are delivered and purged one by one while the old one stays on file
		plans = append(plans, nhPlan{Scenario: si, Root: []nhEvent{{Op: "submit", B: 3}, {Op: "restart1s"}, {Op: "up", P: "dest2"}}, Alphabet: c14Alphabet(), Depth: depth, Budget: budget})
	}
	n := nhRunPlans(r, "C14", "c14", plans,
		"frozen virtual clock: five application bundles with identical source and creation time (two of them clock-less) submitted via SendBundle and via the agent path, two received bundles whose reception reports the node originates in the same millisecond; BFS over submissions, receptions, peers, send outcomes, retry ticks and restart; in every state the mapping bundle <-> ID on the wire is a bijection, every untransmitted submission has its own store record under the ID it carries, and each (re)transmission uses the stored ID",
		[]string{"E3: 2 (thorough: also 3) threads inside SendBundle at once with identical source and creation time, all schedules up to a preemption bound (schedule points: IdKeeper mutex, store operations, and - in a second pass - the codec calls inside the store's transactions, so that two transactions overlap and badger's conflict detection is exercised)"},
		func() int {
			bound, budget := 2, 2000
			if thorough {
				bound, budget = 3, 80000
			}
			n := nhSchedRun(r, "C14", nhConcArg{Algo: "epidemic", Mode: "submit", N: 2, IDsOnly: true}, bound, budget)
			// the same with schedule points inside the store's transactions (two transactions interleave; badger's own
			// conflict detection decides): iterative bounding, first every schedule with one preemption
			n += nhSchedRun(r, "C14", nhConcArg{Algo: "epidemic", Mode: "submit", N: 2, Txn: true, IDsOnly: true}, 1, budget)
			n += nhSchedRun(r, "C14", nhConcArg{Algo: "epidemic", Mode: "submit", N: 2, Txn: true, IDsOnly: true}, bound, budget)
			if thorough {
				n += nhSchedRun(r, "C14", nhConcArg{Algo: "epidemic", Mode: "submit", N: 3, IDsOnly: true}, 2, budget)
			}
			return n
		})
	return n
}

// c14SubmitStep returns the index of the step that submitted the test bundle with this payload (hex), or -1.
func c14SubmitStep(r *nhRun, payloadHex string) int {
	for k, st := range r.steps {
		if st.Event.Op != "submit" && st.Event.Op != "agent" {
			continue
		}
		sp := r.sc.Bundles[st.Event.B].Spec
		if fmt.Sprintf("%x", gen.Payload(int(sp.PayLen), sp.PaySeed)) == payloadHex {
			return k
		}
	}
	return -1
}
