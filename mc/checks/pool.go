package checks

func workerMain() {}
