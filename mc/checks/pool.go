package checks

import (
	"bufio"
	"bytes"
	"encoding/json"
	"fmt"
	"github.com/dtn7/dtn7-go/verif/par"
	"io"
	"os"
	"os/exec"
	"runtime"
	"sync"
	"sync/atomic"
	"time"
)

// Worker processes: the supervisor feeds JSON tasks (one per line) to
// `dtnmc worker <kind>` sub-processes and reads one JSON result line per task.
// A worker that dies (panic in a background goroutine, fatal OOM) or does not
// answer within the watchdog is attributed to the task in flight.

var workers = map[string]func(task []byte) []byte{}

// workerInit, if set for a kind, runs once at worker start.
var workerInit = map[string]func(){}

func workerMain() {
	if len(os.Args) < 3 {
		os.Exit(2)
	}
	kind := os.Args[2]
	h, ok := workers[kind]
	if !ok {
		fmt.Fprintln(os.Stderr, "unknown worker kind", kind)
		os.Exit(2)
	}
	if f := workerInit[kind]; f != nil {
		f()
	}
	in := bufio.NewReaderSize(os.Stdin, 1<<20)
	out := bufio.NewWriter(os.Stdout)
	for {
		line, err := in.ReadBytes('\n')
		if len(line) > 0 {
			res := h(bytes.TrimSpace(line))
			res = bytes.ReplaceAll(res, []byte("\n"), []byte(" "))
			out.Write(res)
			out.WriteByte('\n')
			out.Flush()
		}
		if err != nil {
			return
		}
	}
}

type poolResult struct {
	Res     []byte
	Crashed bool
	Stderr  string
}

// PoolLostWorkers counts workers that died once but whose task succeeded on a fresh worker.
var PoolLostWorkers int64

var poolWatchdog = func() time.Duration {
	if v, err := time.ParseDuration(os.Getenv("VERIF_WATCHDOG")); err == nil && v > 0 {
		return v
	}
	return 300 * time.Second
}()

// runPool executes tasks on n worker processes; handle is called (concurrently)
// for every task.
func runPool(kind string, n int, tasks [][]byte, handle func(i int, r poolResult)) {
	runPoolSkip(kind, n, tasks, nil, handle)
}

// runPoolSkip is runPool with a predicate consulted before each task is
// dispatched; skipped tasks are not run and not reported.
func runPoolSkip(kind string, n int, tasks [][]byte, skip func(i int) bool, handle func(i int, r poolResult)) {
	if n <= 0 {
		n = runtime.NumCPU()
	}
	if n > len(tasks) {
		n = len(tasks)
	}
	var next int64 = -1
	var wg sync.WaitGroup
	for w := 0; w < n; w++ {
		wg.Add(1)
		go func() {
			defer wg.Done()
			var p *proc
			defer func() {
				if p != nil {
					p.kill()
				}
			}()
			for {
				i := int(atomic.AddInt64(&next, 1))
				if i >= len(tasks) || par.Expired() {
					return
				}
				if skip != nil && skip(i) {
					continue
				}
				if p == nil {
					var err error
					if p, err = startProc(kind); err != nil {
						handle(i, poolResult{Crashed: true, Stderr: "cannot start worker: " + err.Error()})
						continue
					}
				}
				res, ok := p.do(tasks[i])
				if !ok {
					st := p.stderrTail()
					p.kill()
					p = nil
					// a worker may be lost for reasons unrelated to the task (resource pressure): a crash is
					// believed only if it reproduces on a fresh worker
					if p2, err := startProc(kind); err == nil {
						res2, ok2 := p2.do(tasks[i])
						if ok2 {
							p = p2
							atomic.AddInt64(&PoolLostWorkers, 1)
							handle(i, poolResult{Res: res2})
							continue
						}
						st = st + "\n[second attempt] " + p2.stderrTail()
						p2.kill()
					}
					handle(i, poolResult{Crashed: true, Stderr: st})
					continue
				}
				handle(i, poolResult{Res: res})
				if bytes.Contains(res, []byte(`"poisoned":true`)) {
					p.kill()
					p = nil
				}
			}
		}()
	}
	wg.Wait()
}

type proc struct {
	cmd    *exec.Cmd
	in     io.WriteCloser
	out    *bufio.Reader
	errBuf *tailBuf
	lines  chan []byte
}

type tailBuf struct {
	mu sync.Mutex
	b  []byte
}

func (t *tailBuf) Write(p []byte) (int, error) {
	t.mu.Lock()
	t.b = append(t.b, p...)
	if len(t.b) > 16384 {
		t.b = t.b[len(t.b)-16384:]
	}
	t.mu.Unlock()
	return len(p), nil
}

func startProc(kind string) (*proc, error) {
	exe := os.Getenv("VERIF_BIN")
	if exe == "" {
		var err error
		if exe, err = os.Executable(); err != nil {
			return nil, err
		}
	}
	cmd := exec.Command(exe, "worker", kind)
	// One P per worker and a lazy collector: the replays are short-lived and allocation-heavy (a fresh badger
	// store each); measured CPU per replay is a third of what GOMAXPROCS=2 with the default GOGC costs.
	cmd.Env = append(os.Environ(), "GOMAXPROCS=1", "GOGC=400")
	in, err := cmd.StdinPipe()
	if err != nil {
		return nil, err
	}
	outp, err := cmd.StdoutPipe()
	if err != nil {
		return nil, err
	}
	tb := &tailBuf{}
	cmd.Stderr = tb
	if err := cmd.Start(); err != nil {
		return nil, err
	}
	p := &proc{cmd: cmd, in: in, out: bufio.NewReaderSize(outp, 1<<20), errBuf: tb, lines: make(chan []byte, 1)}
	go func() {
		for {
			line, err := p.out.ReadBytes('\n')
			if len(line) > 0 && err == nil {
				p.lines <- line
			}
			if err != nil {
				close(p.lines)
				return
			}
		}
	}()
	return p, nil
}

func (p *proc) do(task []byte) ([]byte, bool) {
	t := bytes.ReplaceAll(task, []byte("\n"), []byte(" "))
	if _, err := p.in.Write(append(t, '\n')); err != nil {
		return nil, false
	}
	select {
	case line, ok := <-p.lines:
		if !ok {
			return nil, false
		}
		return bytes.TrimSpace(line), true
	case <-time.After(poolWatchdog):
		p.errBuf.Write([]byte("\n[supervisor] watchdog: no answer within " + poolWatchdog.String() + " (hang / deadlock)\n"))
		return nil, false
	}
}

func (p *proc) stderrTail() string {
	// give the dying process a moment to flush its panic trace
	done := make(chan struct{})
	go func() {
		err := p.cmd.Wait()
		p.errBuf.Write([]byte(fmt.Sprintf("\n[supervisor] worker exit: %v\n", err)))
		close(done)
	}()
	select {
	case <-done:
	case <-time.After(2 * time.Second):
	}
	p.errBuf.mu.Lock()
	defer p.errBuf.mu.Unlock()
	return string(p.errBuf.b)
}

func (p *proc) kill() {
	_ = p.in.Close()
	if p.cmd.Process != nil {
		_ = p.cmd.Process.Kill()
	}
	go func() { _ = p.cmd.Wait() }()
}

func mustJSON(x interface{}) []byte {
	b, err := json.Marshal(x)
	if err != nil {
		panic(err)
	}
	return b
}
