package checks

import (
	"bytes"
	"encoding/json"
	"fmt"
	"sync"
	"time"

	"github.com/dtn7/dtn7-go/verif/vrt"
)

// Stateless exploration of thread interleavings (E3): DFS over schedules of a
// scenario executed under the cooperative scheduler, preemption-bounded.

// schedScenario builds a fresh instance, runs the managed body and judges the
// outcome. body is executed as managed thread 0 by vrt.Run.
type schedScenario struct {
	// Setup creates a fresh instance; returns the managed body and a judge to call after the execution.
	Setup func(arg json.RawMessage) (body func(), judge func(res vrt.Result) (obs, key, desc string), cleanup func())
}

var schedScenarios = map[string]schedScenario{}

type schedTask struct {
	Scenario string          `json:"scenario"`
	Arg      json.RawMessage `json:"arg,omitempty"`
	Prefix   []int           `json:"prefix"`
	Bound    int             `json:"bound"`
	MaxExecs int             `json:"max_execs"`
	Single   bool            `json:"single,omitempty"` // run just this schedule
}

type schedViol struct {
	Key    string `json:"key"`
	Desc   string `json:"desc"`
	Prefix []int  `json:"prefix"`
}

type schedOut struct {
	Execs     int            `json:"execs"`
	Outcomes  map[string]int `json:"outcomes"`
	Viol      []schedViol    `json:"viol,omitempty"`
	Poisoned  bool           `json:"poisoned"`
	Capped    bool           `json:"capped"`
	Diverged  int            `json:"diverged"`
	MaxPoints int            `json:"max_points"`
	Roots     [][]int        `json:"roots,omitempty"` // for the split step: subtree roots
	Trace     []string       `json:"trace,omitempty"`
}

func init() { workers["sched"] = schedWorker }

type schedExec struct {
	res  vrt.Result
	obs  string
	key  string
	desc string
}

func schedRunOnce(t schedTask, prefix []int) schedExec {
	sc := schedScenarios[t.Scenario]
	body, judge, cleanup := sc.Setup(t.Arg)
	res := vrt.Run(prefix, 200000, body)
	var x schedExec
	x.res = res
	switch {
	case res.Diverged:
		x.key, x.desc = "", "diverged"
	case res.Panic != nil:
		x.key, x.desc = "panic", fmt.Sprintf("panic in a managed thread: %v\n%s", res.Panic, firstLines(res.PanicStack, 14))
		x.obs = "panic"
	case res.Deadlock:
		x.key, x.desc = "deadlock", "no enabled thread: "+res.DeadInfo
		x.obs = "deadlock"
	default:
		x.obs, x.key, x.desc = judge(res) // the judge sees res.Faults (tracked-map conflicts)
	}
	if cleanup != nil && !res.Deadlock && res.Panic == nil {
		cleanup()
	}
	return x
}

func firstLines(s string, n int) string {
	ls := bytes.Split([]byte(s), []byte("\n"))
	if len(ls) > n {
		ls = ls[:n]
	}
	return string(bytes.Join(ls, []byte(" | ")))
}

func preemptionsBefore(ds []vrt.Decision, i int) int {
	c := 0
	for j := 0; j < i; j++ {
		if ds[j].Chosen != 0 && ds[j].CurEnabled {
			c++
		}
	}
	return c
}

func choicesOf(ds []vrt.Decision, n int) []int {
	out := make([]int, n)
	for i := 0; i < n; i++ {
		out[i] = ds[i].Chosen
	}
	return out
}

func schedWorker(task []byte) []byte {
	var t schedTask
	if err := json.Unmarshal(task, &t); err != nil {
		return mustJSON(schedOut{Viol: []schedViol{{Key: "harness", Desc: err.Error()}}})
	}
	out := schedOut{Outcomes: map[string]int{}}
	started := time.Now()
	var explore func(prefix []int, split bool)
	explore = func(prefix []int, split bool) {
		// a task answers well before the supervisor's watchdog, which is reserved for real hangs: on a slow or
		// loaded machine the subtree is cut (and reported as capped) instead
		if !out.Poisoned && !t.Single && time.Since(started) > 120*time.Second {
			out.Capped = true
			return
		}
		if out.Poisoned || (t.MaxExecs > 0 && out.Execs >= t.MaxExecs) {
			if !out.Poisoned {
				out.Capped = true
			}
			return
		}
		x := schedRunOnce(t, prefix)
		out.Execs++
		if x.res.Diverged {
			out.Diverged++
			return
		}
		if len(x.res.Decisions) > out.MaxPoints {
			out.MaxPoints = len(x.res.Decisions)
		}
		out.Outcomes[x.obs]++
		if x.key != "" {
			if len(out.Viol) < 20 {
				out.Viol = append(out.Viol, schedViol{x.key, x.desc, choicesOf(x.res.Decisions, len(x.res.Decisions))})
			}
		}
		if x.res.Deadlock || x.res.Panic != nil {
			out.Poisoned = true // parked goroutines may hold real locks: discard this process
			return
		}
		if t.Single {
			for _, d := range x.res.Decisions {
				out.Trace = append(out.Trace, fmt.Sprintf("T%d:%s", d.Enabled[d.Chosen], d.Label))
			}
			return
		}
		ds := x.res.Decisions
		for i := len(prefix); i < len(ds); i++ {
			cost := preemptionsBefore(ds, i)
			if ds[i].CurEnabled {
				cost++
			}
			if cost > t.Bound {
				continue
			}
			for alt := 1; alt < len(ds[i].Enabled); alt++ {
				np := append(choicesOf(ds, i), alt)
				if split {
					out.Roots = append(out.Roots, np)
				} else {
					explore(np, false)
				}
			}
		}
	}
	// Prefix == nil and MaxExecs == -1: split step (run the root, return subtree roots)
	if t.MaxExecs == -1 {
		t.MaxExecs = 0
		explore(t.Prefix, true)
	} else {
		explore(t.Prefix, false)
	}
	return mustJSON(out)
}

type schedSummary struct {
	Execs    int
	Outcomes map[string]int
	Bound    int
	Capped   bool
	Diverged int
	Viol     []schedViol
}

// exploreSchedules explores all schedules of a scenario with at most bound
// preemptions, split over worker processes. budget caps the executions (0 = none).
func exploreSchedules(scenario string, arg interface{}, bound, budget int) schedSummary {
	sum := schedSummary{Outcomes: map[string]int{}, Bound: bound}
	var argRaw json.RawMessage
	if arg != nil {
		argRaw = mustJSON(arg)
	}
	merge := func(o schedOut) {
		sum.Execs += o.Execs
		sum.Capped = sum.Capped || o.Capped
		sum.Diverged += o.Diverged
		for k, v := range o.Outcomes {
			sum.Outcomes[k] += v
		}
		for _, v := range o.Viol {
			if len(sum.Viol) < 50 {
				sum.Viol = append(sum.Viol, v)
			}
		}
	}
	// level 0: root execution, returns first-level subtree roots
	var roots [][]int
	split := func(prefixes [][]int) [][]int {
		var next [][]int
		var mu sync.Mutex
		tasks := make([][]byte, len(prefixes))
		for i, p := range prefixes {
			tasks[i] = mustJSON(schedTask{Scenario: scenario, Arg: argRaw, Prefix: p, Bound: bound, MaxExecs: -1})
		}
		runPoolPoison("sched", 0, tasks, func(i int, pr poolResult) {
			mu.Lock()
			defer mu.Unlock()
			if pr.Crashed {
				sum.Viol = append(sum.Viol, schedViol{"crash", "worker died: " + lastLines(pr.Stderr, 12), prefixes[i]})
				return
			}
			var o schedOut
			_ = json.Unmarshal(pr.Res, &o)
			merge(o)
			next = append(next, o.Roots...)
		})
		return next
	}
	roots = split([][]int{nil})
	if len(roots) > 0 && len(roots) < 64 {
		roots = split(roots)
	}
	per := 0
	if budget > 0 && len(roots) > 0 {
		per = (budget-sum.Execs)/len(roots) + 1
		if per < 1 {
			per = 1
		}
	}
	tasks := make([][]byte, len(roots))
	for i, p := range roots {
		tasks[i] = mustJSON(schedTask{Scenario: scenario, Arg: argRaw, Prefix: p, Bound: bound, MaxExecs: per})
	}
	var mu sync.Mutex
	runPoolPoison("sched", 0, tasks, func(i int, pr poolResult) {
		mu.Lock()
		defer mu.Unlock()
		if pr.Crashed {
			sum.Viol = append(sum.Viol, schedViol{"crash", "worker died: " + lastLines(pr.Stderr, 12), roots[i]})
			return
		}
		var o schedOut
		_ = json.Unmarshal(pr.Res, &o)
		merge(o)
	})
	return sum
}

// runPoolPoison is runPool for workers that may declare themselves poisoned
// (result contains "poisoned":true): such a worker is replaced.
func runPoolPoison(kind string, n int, tasks [][]byte, handle func(i int, r poolResult)) {
	poisonAware = true
	runPool(kind, n, tasks, handle)
}

var poisonAware = false

// FreeRun executes the body of a schedule-exploration scenario n times with plain goroutines (no scheduler). It is
// the companion of E3 for a race-detector build (run.sh with VERIF_RACE=1): the cooperative scheduler's hand-offs
// are happens-before edges that blind the detector, a free-running execution is not. Sampling, hence an audit and
// never a verdict: the output is the detector's.
func FreeRun(scenario, arg, n string) {
	sc, ok := schedScenarios[scenario]
	if !ok {
		fmt.Println("unknown scenario", scenario)
		return
	}
	cnt := 0
	fmt.Sscan(n, &cnt)
	outcomes := map[string]int{}
	for i := 0; i < cnt; i++ {
		body, judge, cleanup := sc.Setup(json.RawMessage(arg))
		done := make(chan struct{})
		go func() { defer close(done); body() }()
		<-done
		obs, key, _ := judge(vrt.Result{})
		outcomes[obs+" "+key]++
		if cleanup != nil {
			cleanup()
		}
	}
	fmt.Printf("freerun %s %s: %d executions, outcomes %v\n", scenario, arg, cnt, outcomes)
}
