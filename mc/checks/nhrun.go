package checks

import (
	"encoding/json"
	"fmt"
	"os"
	"sort"
	"strings"
	"time"

	"github.com/dtn7/dtn7-go/pkg/bpv7"
	"github.com/dtn7/dtn7-go/verif/gen"
	"github.com/dtn7/dtn7-go/verif/ref"
	"github.com/dtn7/dtn7-go/verif/vtime"
)

// Event alphabet of the node harness and the tracker that keeps the oracle's
// history-dependent state (which bundle was accepted, sent successfully to
// whom, is expired, ...).

type nhEvent struct {
	Op string `json:"op"`          // submit agent receive up down ok fail retry clean advance restart cron
	B  int    `json:"b,omitempty"` // bundle index
	P  string `json:"p,omitempty"` // peer
	Q  string `json:"q,omitempty"` // previous node for receive ("" = none)
	S  int    `json:"s,omitempty"` // seconds for advance
	N  string `json:"n,omitempty"` // cron job name
}

func (e nhEvent) String() string {
	switch e.Op {
	case "submit", "agent":
		return fmt.Sprintf("%s(b%d)", e.Op, e.B)
	case "receive":
		return fmt.Sprintf("receive(b%d from %s prev %s)", e.B, e.P, e.Q)
	case "up", "down", "ok", "fail":
		return e.Op + "(" + e.P + ")"
	case "advance":
		return fmt.Sprintf("advance(%ds)", e.S)
	case "report":
		return fmt.Sprintf("report(%s about b%d from %s)", []string{"received", "forwarded", "delivered", "deleted"}[e.S%4], e.B, e.P)
	case "cron":
		return "cron(" + e.N + ")"
	}
	return e.Op
}

// nhBundle describes a test bundle of a scenario.
type nhBundle struct {
	Spec     gen.Spec
	Local    bool   // originated at this node (submit) - else received
	Dest     string // peer name of the destination node
	ZeroTime bool
}

type nhTrack struct {
	Accepted    bool
	AcceptedAt  time.Time
	Refused     bool
	OKPeers     map[string]bool // peers with a successful transmission
	Prev        string          // previous node named when the bundle was received
	ID          bpv7.BundleID   // the ID under which the node holds it
	EpochStep   int             // index of the step of the latest (re)acceptance after the node had dropped the bundle
	AgeAtAccept uint64
}

type nhScenario struct {
	Cfg     nhConfig
	Bundles []nhBundle
}

type nhStep struct {
	Event     nhEvent
	Sends     []nhSend // sends performed during this event
	Effective bool     // the event changed something (a peer really appeared, a bundle was really new, ...)
}

type nhRun struct {
	n     *nhNode
	sc    nhScenario
	tr    []*nhTrack
	steps []nhStep
	bobj  []bpv7.Bundle
}

func newNhRun(sc nhScenario) (*nhRun, error) {
	useVirtualClock()
	n, err := newNhNode(sc.Cfg)
	if err != nil {
		return nil, err
	}
	r := &nhRun{n: n, sc: sc}
	for range sc.Bundles {
		r.tr = append(r.tr, &nhTrack{OKPeers: map[string]bool{}})
	}
	return r, nil
}

// build instantiates test bundle i at the current virtual time.
func (r *nhRun) build(i int) bpv7.Bundle {
	s := r.sc.Bundles[i].Spec
	if !r.sc.Bundles[i].ZeroTime && s.Time == 0 {
		s.Time = uint64(vtime.Now().UnixNano()/1000000) - 946684800000
	}
	return s.Build()
}

// idOfSend extracts the scrubbed bundle id string of a recorded send.
func idOfSend(s nhSend) string {
	rb, err := ref.Decode(s.Enc)
	if err != nil {
		return "undecodable"
	}
	return fmt.Sprintf("%s-%d-%d", rb.P.Src, rb.P.Time, rb.P.Seq)
}

func (r *nhRun) idString(i int) string {
	id := r.tr[i].ID
	return fmt.Sprintf("%s-%d-%d", id.SourceNode, id.Timestamp[0], id.Timestamp[1])
}

// expired tells whether test bundle i's lifetime has run out at the current
// virtual time (by creation time, or by age for clock-less bundles).
func (r *nhRun) expired(i int) bool {
	t := r.tr[i]
	if !t.Accepted {
		return false
	}
	s := r.sc.Bundles[i].Spec
	now := vtime.Now()
	if r.sc.Bundles[i].ZeroTime {
		age := t.AgeAtAccept + uint64(now.Sub(t.AcceptedAt)/time.Millisecond)
		return age >= s.Lifetime
	}
	created := time.Unix(0, (int64(t.ID.Timestamp[0])+946684800000)*1000000)
	return now.After(created.Add(time.Duration(s.Lifetime) * time.Millisecond))
}

// apply performs one event on the node and records the sends it caused.
func (r *nhRun) apply(e nhEvent) error {
	n := r.n
	n.mu.Lock()
	n.eventNo = len(r.steps)
	n.mu.Unlock()
	before := n.nSends()
	effective := true
	switch e.Op {
	case "submit", "agent":
		b := r.build(e.B)
		t := r.tr[e.B]
		if t.Accepted {
			// the application submits each test bundle once (a second submission would be a different bundle)
			effective = false
			break
		}
		assigned := b.ID().Scrub()
		if e.Op == "submit" {
			assigned = n.submitID(b)
		} else {
			n.submitViaAgent(b)
			if pb, perr := b.PayloadBlock(); perr == nil {
				if id, ok := n.assignedID(pb.Value.(*bpv7.PayloadBlock).Data(), before); ok {
					assigned = id
				}
			}
		}
		if !t.Accepted {
			t.Accepted, t.AcceptedAt = true, vtime.Now()
			t.ID = assigned
			if ab, err := b.ExtensionBlock(bpv7.ExtBlockTypeBundleAgeBlock); err == nil {
				t.AgeAtAccept = ab.Value.(*bpv7.BundleAgeBlock).Age()
			}
		}
	case "receive":
		s := r.sc.Bundles[e.B].Spec
		if s.Time == 0 && !r.sc.Bundles[e.B].ZeroTime {
			// a received bundle keeps its creation time across receptions: fix it at scenario start
			s.Time = uint64(VNow.UnixNano()/1000000) - 946684800000 - 1000
		}
		if e.Q != "" {
			s.Ext = append(append([]gen.BSpec(nil), s.Ext...), gen.BSpec{Kind: "prev", S: []string{"dtn://" + e.Q + "/"}})
		}
		b := s.Build()
		t := r.tr[e.B]
		first := !t.Accepted
		effective = first
		if !first && !n.storeInfo(t.ID).Known {
			// the node no longer holds the bundle (delivered / expired): this reception starts a new holding
			t.EpochStep = len(r.steps)
			t.OKPeers = map[string]bool{}
			t.Prev = e.Q
			t.AcceptedAt = vtime.Now()
			effective = true
		}
		n.receive(b, e.P)
		if first {
			t.Accepted, t.AcceptedAt = true, vtime.Now()
			t.ID = b.ID().Scrub()
			t.Prev = e.Q
			if ab, err := b.ExtensionBlock(bpv7.ExtBlockTypeBundleAgeBlock); err == nil {
				t.AgeAtAccept = ab.Value.(*bpv7.BundleAgeBlock).Age()
			}
		}
	case "report":
		// a peer delivers a status report about test bundle B (status S: 0 received, 1 forwarded, 2 delivered,
		// 3 deleted), addressed to the bundle's report-to endpoint
		t := r.tr[e.B]
		if !t.Accepted {
			effective = false
			break
		}
		about := r.build(e.B)
		about.PrimaryBlock.CreationTimestamp = t.ID.Timestamp
		rep, rerr := bpv7.Builder().Source("dtn://"+e.P+"/").Destination(about.PrimaryBlock.ReportTo.String()).CreationTimestampNow().Lifetime("10m").
			StatusReport(about, bpv7.StatusInformationPos(e.S), bpv7.NoInformation).Build()
		if rerr != nil {
			return rerr
		}
		n.receive(rep, e.P)
	case "up":
		effective = !n.peer(e.P).up
		n.peerUp(e.P)
	case "down":
		effective = n.peer(e.P).up
		n.peerDown(e.P)
	case "ok":
		n.setOutcome(e.P, true)
	case "fail":
		n.setOutcome(e.P, false)
	case "retry":
		n.retryTick()
	case "clean":
		n.cleanTick()
	case "advance":
		n.advance(time.Duration(e.S) * time.Second)
	case "restart", "restart1s":
		if err := n.restart(); err != nil {
			return err
		}
		if e.Op == "restart1s" {
			n.advance(time.Second) // a restart takes time
		}
	case "cron":
		n.runCron(e.N)
	}
	sends := n.sendsSince(before)
	r.steps = append(r.steps, nhStep{e, sends, effective})
	for _, s := range sends {
		if !s.OK {
			continue
		}
		id := idOfSend(s)
		for i, t := range r.tr {
			if t.Accepted && r.idString(i) == id {
				t.OKPeers[s.Peer] = true
			}
		}
	}
	return nil
}

// sentTo reports whether test bundle i was handed to peer during the last event (any outcome).
func (r *nhRun) offeredInLast(i int, peer string) bool {
	last := r.steps[len(r.steps)-1]
	for _, s := range last.Sends {
		if s.Peer == peer && idOfSend(s) == r.idString(i) {
			return true
		}
	}
	return false
}

// key summarises the harness-visible state for state matching.
func (r *nhRun) key() string {
	var parts []string
	for i, t := range r.tr {
		if !t.Accepted {
			parts = append(parts, fmt.Sprintf("b%d:-", i))
			continue
		}
		si := r.n.storeInfo(t.ID)
		var ok []string
		for p := range t.OKPeers {
			ok = append(ok, p)
		}
		sort.Strings(ok)
		copies, known := uint64(0), false
		if alg := r.n.core.VerifAlgorithm(); alg != nil {
			copies, known = verifSprayCopies(alg, t.ID)
		}
		parts = append(parts, fmt.Sprintf("b%d:%v/%v/%v/ok=%v/exp=%v/prev=%s/c=%d,%v", i, si.Known, si.Pending, si.Cons, ok, r.expired(i), t.Prev, copies, known))
	}
	var outs []string
	r.n.mu.Lock()
	for p, o := range r.n.outcome {
		outs = append(outs, fmt.Sprintf("%s=%v", p, o))
	}
	r.n.mu.Unlock()
	sort.Strings(outs)
	// clock bucket: elapsed virtual time relative to the thresholds the alphabet can cross
	el := vtime.Now().Sub(VNow)
	bucket := 0
	for _, th := range []time.Duration{time.Second, 30 * time.Minute, time.Hour, 2 * time.Hour} {
		if el >= th {
			bucket++
		}
	}
	return strings.Join(parts, ";") + "|up=" + strings.Join(r.n.connectedAdapters(), ",") + "|" + strings.Join(outs, ",") + fmt.Sprintf("|t%d", bucket)
}

type nhTask struct {
	Check    string    `json:"check"`
	Scenario int       `json:"scenario"`
	Events   []nhEvent `json:"events"`
}

type nhResult struct {
	Key   string `json:"key,omitempty"`
	Desc  string `json:"desc,omitempty"`
	State string `json:"state"`
	Obs   string `json:"obs"`
	NSend int    `json:"nsend"`
}

// nhOracle is called after each event; it returns a violation key/description or "".
type nhOracle func(r *nhRun) (key, desc string)

type nhCheckDef struct {
	Scenarios []nhScenario
	Oracle    nhOracle
}

var nhChecks = map[string]func() nhCheckDef{}

func init() { workers["nh"] = nhWorker }

func nhWorker(task []byte) []byte {
	var t nhTask
	if err := json.Unmarshal(task, &t); err != nil {
		return mustJSON(nhResult{Key: "harness", Desc: err.Error()})
	}
	return mustJSON(nhReplay(t))
}

func nhReplay(t nhTask) (res nhResult) {
	def := nhChecks[t.Check]()
	sc := def.Scenarios[t.Scenario]
	t0 := time.Now()
	r, err := newNhRun(sc)
	if err != nil {
		return nhResult{Key: "harness-open", Desc: err.Error()}
	}
	t1 := time.Now()
	defer func() {
		t2 := time.Now()
		r.n.destroy()
		if os.Getenv("VERIF_TIMING") != "" {
			fmt.Fprintf(os.Stderr, "open %v events %v close %v\n", t1.Sub(t0), t2.Sub(t1), time.Since(t2))
		}
	}()
	defer func() {
		if p := recover(); p != nil {
			res.Key, res.Desc = "panic", fmt.Sprintf("panic during %v: %v", t.Events, p)
		}
	}()
	var obs []string
	for i, e := range t.Events {
		if err := r.apply(e); err != nil {
			return nhResult{Key: "event-failed:" + e.Op, Desc: fmt.Sprintf("%v: %v", t.Events[:i+1], err)}
		}
		last := r.steps[len(r.steps)-1]
		var ss []string
		for _, s := range last.Sends {
			ss = append(ss, fmt.Sprintf("%s:%s:%v", s.Peer, idOfSend(s), s.OK))
		}
		obs = append(obs, strings.Join(ss, ","))
		if len(r.n.sendErrs) > 0 {
			return nhResult{Key: "unserialisable-bundle-handed-to-cla", Desc: fmt.Sprintf("after %v: %s", t.Events[:i+1], r.n.sendErrs[0])}
		}
		if k, d := def.Oracle(r); k != "" {
			return nhResult{Key: k, Desc: fmt.Sprintf("after %v: %s", t.Events[:i+1], d), NSend: r.n.nSends()}
		}
	}
	res.State = r.key()
	res.Obs = strings.Join(obs, " > ")
	res.NSend = r.n.nSends()
	return
}
