package checks

import (
	"bytes"
	"encoding/json"
	"fmt"
	"strings"
	"sync"

	"github.com/dtn7/dtn7-go/pkg/cla/tcpclv4/vh"
	"github.com/dtn7/dtn7-go/verif/ev"
	"github.com/dtn7/dtn7-go/verif/gen"
)

func init() {
	All["C11"] = Check{Level: "model_checking", Run: runC11, Replay: replayC11}
	workers["c11"] = c11Worker
}

type c11Task struct {
	Kind     string `json:"kind"` // oneway fault merge
	PayLen   int    `json:"paylen"`
	M        uint64 `json:"m"`
	Mode     string `json:"mode,omitempty"`
	K        int    `json:"k,omitempty"`
	Both     bool   `json:"both,omitempty"`
	Order    []int  `json:"order,omitempty"`
	AckOrder []int  `json:"ack_order,omitempty"`
}

type c11Result struct {
	Key   string `json:"key,omitempty"`
	Desc  string `json:"desc,omitempty"`
	Out   string `json:"out"` // outcome signature
	L     int    `json:"l"`
	NSegs int    `json:"nsegs"`
}

func c11Spec(paylen int, seq uint64) gen.Spec {
	return gen.Spec{Dst: "dtn://dst/", Src: "dtn://src/", Rpt: "dtn://src/", PCRC: 2, Time: DtnNow(), Seq: seq, Lifetime: 3600000, PayLen: paylen, PayCRC: 1, PaySeed: byte(seq)}
}

func c11Run(t c11Task) (res c11Result) {
	useVirtualClock()
	b := c11Spec(t.PayLen, 1).Build()
	enc, _ := gen.Ser(&b)
	res.L = len(enc)
	divides := uint64(len(enc))%t.M == 0
	tag := ""
	if divides {
		tag = ":m-divides-L"
	}
	switch t.Kind {
	case "oneway":
		r := vh.OneWay(b, t.M)
		res.NSegs = len(r.Segs)
		res.Out = fmt.Sprintf("segs=%d err=%q delivered=%d", len(r.Segs), r.SendErr, len(r.Delivered))
		if r.Hang != "" {
			res.Key, res.Desc = "C11/hang"+tag, r.Hang
			return
		}
		// segment oracle
		var cat []byte
		for i, s := range r.Segs {
			if uint64(s.Len) > t.M {
				res.Key, res.Desc = "C11/segment-larger-than-mru", fmt.Sprintf("segment %d has %d bytes, m=%d", i, s.Len, t.M)
				return
			}
			if s.Start != (i == 0) {
				res.Key, res.Desc = "C11/start-flag", fmt.Sprintf("segment %d of %d: START=%v", i, len(r.Segs), s.Start)
				return
			}
			if s.End != (i == len(r.Segs)-1) {
				res.Key, res.Desc = "C11/end-flag"+tag, fmt.Sprintf("L=%d m=%d: segment %d of %d: END=%v", len(enc), t.M, i, len(r.Segs), s.End)
				return
			}
		}
		cat = r.Data[0]
		if !bytes.Equal(cat, enc) {
			res.Key, res.Desc = "C11/segments-do-not-concatenate-to-encoding", fmt.Sprintf("%d bytes vs %d", len(cat), len(enc))
			return
		}
		if r.SendErr[0] == "" {
			if len(r.Delivered) != 1 || !bytes.Equal(r.Delivered[0], enc) {
				res.Key, res.Desc = "C11/send-ok-but-not-delivered"+tag, fmt.Sprintf("L=%d m=%d: Send returned nil, receiver handed up %d bundles (errors %v)", len(enc), t.M, len(r.Delivered), r.RecvErrs)
			}
		} else {
			// a faithful link and a correct receiver: failing is not forbidden by the statement, but delivering something else is
			for _, d := range r.Delivered {
				if !bytes.Equal(d, enc) {
					res.Key, res.Desc = "C11/different-bundle-delivered", ""
				}
			}
		}
	case "fault":
		nb := c11Spec(t.PayLen+5, 3).Build()
		nenc, _ := gen.Ser(&nb)
		var r vh.TransferResult
		if t.Mode == "stall" {
			r = vh.Faulty(b, t.M, t.Mode, t.K) // the peer never reads again: no follow-up transfer
		} else {
			r = vh.Faulty(b, t.M, t.Mode, t.K, nb)
		}
		res.NSegs = len(r.Segs)
		// the transfer after the failed one, on the same manager with a well-behaved peer
		if r.NextRan && r.Hang == "" {
			switch {
			case r.NextErr != "":
				res.Key, res.Desc = "C11/transfer-after-failed-transfer:send-error", fmt.Sprintf("after a transfer that failed (%s at segment %d) the next Send on the same session returned %q (first transfer: %d segments seen, send error %q; next transfer: %d segments seen, %d of %d octets)", t.Mode, t.K, r.NextErr, len(r.Segs), r.SendErr, len(r.Next), len(r.NextData), len(nenc))
			case !bytes.Equal(r.NextData, nenc):
				res.Key, res.Desc = "C11/transfer-after-failed-transfer:data", fmt.Sprintf("after a transfer that failed (%s at segment %d) the segments of the next transfer carry %d octets, the bundle has %d (or other content)", t.Mode, t.K, len(r.NextData), len(nenc))
			case len(r.Next) == 0 || !r.Next[0].Start || !r.Next[len(r.Next)-1].End:
				res.Key, res.Desc = "C11/transfer-after-failed-transfer:flags", "START/END flags of the transfer after a failed one"
			case len(r.Segs) > 0 && r.Next[0].Tid == r.Segs[0].Tid:
				res.Key, res.Desc = "C11/transfer-after-failed-transfer:id-reused", fmt.Sprintf("the transfer after a failed one reuses transfer id %d", r.Next[0].Tid)
			}
			for i, sg := range r.Next {
				if res.Key == "" && ((i > 0 && sg.Start) || (i < len(r.Next)-1 && sg.End) || sg.Tid != r.Next[0].Tid) {
					res.Key, res.Desc = "C11/transfer-after-failed-transfer:flags", fmt.Sprintf("segment %d of the transfer after a failed one: %+v", i, sg)
				}
			}
			if res.Key != "" {
				return
			}
		}
		res.Out = fmt.Sprintf("%s@%d segs=%d err=%v", t.Mode, t.K, len(r.Segs), r.SendErr)
		if r.Hang != "" {
			res.Key, res.Desc = "C11/hang:"+t.Mode, r.Hang
			return
		}
		total := (len(enc) + int(t.M) - 1) / int(t.M)
		if t.K >= total {
			return // fault never injected: all segments acknowledged
		}
		if r.SendErr[0] == "" {
			res.Key = "C11/send-ok-despite-fault:" + t.Mode
			res.Desc = fmt.Sprintf("L=%d m=%d: peer %s at segment %d of %d, Send returned nil", len(enc), t.M, t.Mode, t.K, total)
		}
	case "merge":
		b1 := c11Spec(t.PayLen+3, 2).Build()
		enc1, _ := gen.Ser(&b1)
		r := vh.Merge(b, b1, t.M, t.Both, t.Order, t.AckOrder)
		res.Out = fmt.Sprintf("nseg=%v err=%q delivered=%d", r.NSeg, r.SendErr, len(r.Delivered))
		if r.Hang != "" {
			res.Key, res.Desc = "C11/hang:merge"+tag, r.Hang
			return
		}
		for i, e := range r.SendErr {
			if e != "" {
				res.Key, res.Desc = "C11/concurrent-send-failed", fmt.Sprintf("flow %d: %s (order %v acks %v both=%v)", i, e, t.Order, t.AckOrder, t.Both)
				return
			}
		}
		want := map[string]int{string(enc): 1, string(enc1): 1}
		for _, d := range r.Delivered {
			want[string(d)]--
		}
		for _, c := range want {
			if c != 0 {
				res.Key = "C11/concurrent-transfers-not-delivered-exactly-once" + tag
				res.Desc = fmt.Sprintf("order %v acks %v both=%v: delivered %d bundles, receiver errors %v", t.Order, t.AckOrder, t.Both, len(r.Delivered), r.RecvErrs)
				return
			}
		}
	}
	return
}

func c11Worker(task []byte) []byte {
	var t c11Task
	if err := json.Unmarshal(task, &t); err != nil {
		return mustJSON(c11Result{Key: "C11/harness", Desc: err.Error()})
	}
	return mustJSON(c11Run(t))
}

func merges(n0, n1 int) [][]int {
	var out [][]int
	var rec func(a, b int, cur []int)
	rec = func(a, b int, cur []int) {
		if a == n0 && b == n1 {
			out = append(out, append([]int(nil), cur...))
			return
		}
		if a < n0 {
			rec(a+1, b, append(cur, 0))
		}
		if b < n1 {
			rec(a, b+1, append(cur, 1))
		}
	}
	rec(0, 0, nil)
	return out
}

func runC11(r *ev.Run, thorough bool) int {
	useVirtualClock()
	var tasks []c11Task
	nPay := 128
	if thorough {
		nPay = 512
	}
	// E1: L over consecutive values x every m in [1, L+2]
	for p := 0; p < nPay; p++ {
		b := c11Spec(p, 1).Build()
		enc, _ := gen.Ser(&b)
		for m := 1; m <= len(enc)+2; m++ {
			tasks = append(tasks, c11Task{Kind: "oneway", PayLen: p, M: uint64(m)})
		}
	}
	// around the 1 MiB default segment size
	for _, p := range []int{1<<20 - 80, 1<<20 - 79, 1 << 20} {
		b := c11Spec(p, 1).Build()
		enc, _ := gen.Ser(&b)
		for _, m := range []int{1<<20 - 1, 1 << 20, 1<<20 + 1, len(enc) - 1, len(enc), len(enc) / 2} {
			tasks = append(tasks, c11Task{Kind: "oneway", PayLen: p, M: uint64(m)})
		}
	}
	// faults: 6x6 grid of (L, m), each segment index k, each mode
	pays := []int{0, 7, 20, 41, 64, 100}
	for _, p := range pays {
		b := c11Spec(p, 1).Build()
		enc, _ := gen.Ser(&b)
		L := len(enc)
		for _, m := range []int{1, 7, L / 4, L / 2, L - 1, L} {
			if m < 1 {
				continue
			}
			total := (L + m - 1) / m
			if total > 12 && !thorough {
				continue
			}
			for k := 0; k <= total && k < 40; k++ {
				for _, mode := range []string{"silent", "stall", "refuse0", "refuse1", "refuse2", "refuse3", "refuse4", "refuse5", "refuse6", "close", "short", "zero"} {
					tasks = append(tasks, c11Task{Kind: "fault", PayLen: p, M: uint64(m), Mode: mode, K: k})
				}
			}
		}
	}
	// E2: the harness is the network; all merges of two flows with <= 3 segments each, acks in all merges
	for _, p := range []int{10, 40} {
		b := c11Spec(p, 1).Build()
		enc, _ := gen.Ser(&b)
		L := len(enc)
		for _, nseg := range []int{2, 3} {
			m := (L + 3 + nseg - 1) / nseg // b1 is 3 bytes longer: both flows need nseg segments
			if (L+m-1)/m != nseg || (L+3+m-1)/m != nseg {
				m++
			}
			for _, both := range []bool{false, true} {
				for _, ord := range merges(nseg, nseg) {
					for ai, ack := range merges(nseg, nseg) {
						if !thorough && nseg == 3 && ai%4 != 0 {
							continue
						}
						tasks = append(tasks, c11Task{Kind: "merge", PayLen: p, M: uint64(m), Both: both, Order: ord, AckOrder: ack})
					}
				}
			}
		}
	}
	raw := make([][]byte, len(tasks))
	for i, t := range tasks {
		raw[i] = mustJSON(t)
	}
	var mu sync.Mutex
	outs := map[string]bool{}
	var nOne, nFault, nMerge, nDiv, validated int64
	lm := map[string]bool{}
	hangs := 0
	cappedOnce := false
	runPoolSkip("c11", 0, raw, func(i int) bool {
		mu.Lock()
		defer mu.Unlock()
		if hangs >= 16 { // every hang costs a watchdog period: after 16 of them the remaining schedules add nothing
			if cappedOnce {
				return true
			}
			cappedOnce = true
			r.Capped("exploration stopped after 16 hanging executions (each is reported)")
			return true
		}
		return false
	}, func(i int, pr poolResult) {
		mu.Lock()
		defer mu.Unlock()
		t := tasks[i]
		if pr.Crashed {
			r.Violation("C11/crash:"+t.Kind, "task", "worker died: "+lastLines(pr.Stderr, 10), t)
			return
		}
		var res c11Result
		if err := json.Unmarshal(pr.Res, &res); err != nil {
			r.Violation("C11/harness-result", "task", err.Error(), t)
			return
		}
		validated++
		outs[t.Kind+"|"+res.Out] = true
		switch t.Kind {
		case "oneway":
			nOne++
			lm[fmt.Sprintf("%d/%d", res.L, t.M)] = true
			if uint64(res.L)%t.M == 0 {
				nDiv++
			}
		case "fault":
			nFault++
		case "merge":
			nMerge++
		}
		if res.Key != "" {
			if strings.HasPrefix(res.Key, "C11/hang") {
				hangs++
			}
			r.Violation(res.Key, "task", res.Desc, t)
		}
		if i%1499 == 0 {
			r.Sample(map[string]interface{}{"task": t, "outcome": res.Out})
		}
	})
	// client level: sessions of real tcpclv4 Clients over in-memory pipes
	var ctasks []c11ClientTask
	mrus := []uint64{1, 7, 100, 1000, 4096, 1 << 20, 1<<20 + 1, 1 << 40, 1<<64 - 1}
	for _, m := range mrus {
		pay := 300
		if m == 1 {
			pay = 20
		}
		ctasks = append(ctasks, c11ClientTask{Kind: "mru", MRU: m, Pay: pay})
	}
	ctasks = append(ctasks, c11ClientTask{Kind: "mru", MRU: 100, Pay: 5000}, c11ClientTask{Kind: "pair", N: 2, Pay: 30}, c11ClientTask{Kind: "pair", N: 3, Pay: 30}, c11ClientTask{Kind: "pair", N: 5, Pay: 2000})
	craw := make([][]byte, len(ctasks))
	for i, t := range ctasks {
		craw[i] = mustJSON(t)
	}
	var nClient int64
	runPool("c11client", 4, craw, func(i int, pr poolResult) {
		mu.Lock()
		defer mu.Unlock()
		if pr.Crashed {
			key := "C11/client-crashed"
			if strings.Contains(pr.Stderr, "watchdog") {
				key = "C11/hang:client"
			}
			r.Violation(key, "client", "worker died: "+lastLines(pr.Stderr, 10), ctasks[i])
			return
		}
		var res c11Result
		_ = json.Unmarshal(pr.Res, &res)
		nClient++
		validated++
		outs["client|"+res.Out] = true
		if res.Key != "" {
			r.Violation(res.Key, "client", res.Desc, ctasks[i])
		}
	})
	r.Add("client_level_sessions", nClient)
	r.Add("oneway_L_m_pairs", nOne)
	r.Add("oneway_pairs_where_m_divides_L", nDiv)
	r.Add("fault_scenarios", nFault)
	r.Add("merge_schedules", nMerge)
	r.Add("distinct_outcomes", int64(len(outs)))
	if nDiv == 0 || nMerge == 0 || nFault == 0 {
		r.Violation("C11/vacuous", "none", "a scenario class is empty", nil)
	}
	return r.Finish(map[string]interface{}{
		"states":                        len(lm) + int(nFault) + int(nMerge),
		"transitions":                   len(tasks),
		"traces_validated_against_impl": validated,
		"evaluations":                   len(tasks),
		"distinct_nontrivial":           len(outs),
		"rule":                          fmt.Sprintf("real TransferManagers joined by the harness acting as the network: every (encoded length L, segment size m) for %d consecutive L and all 1<=m<=L+2 plus sizes around 2^20; fault scenarios (peer silent / refuses with each of the 7 reason codes / session closed / acknowledges short / acknowledges zero) at every segment index on a 6x6 (L,m) grid with the acknowledgement timeout driven by the virtual clock; all interleavings (merges) of the segments of two concurrent transfers (same direction and opposite directions) with 2 and 3 segments each, crossed with all interleavings of the acknowledgements; client level: real tcpclv4 Clients over in-memory pipes against a scripted peer announcing segment MRUs %v (every segment within the announced size, flags, content) and pairs of Clients exchanging 2, 3 and 5 bundles whose reception reports are read only after all are queued; states = distinct scenarios, transitions = executions", nPay, mrus),
	}, []string{"real TCP / WebSocket scheduling is not modelled: the harness delivers messages in every order a reliable in-order-per-flow link can produce", "quiescence of the receiver is established by an unexpected message pushed behind the transfer (its error answer marks the end)", strings.TrimSpace("vtime shim drives the 10 s acknowledgement timeout")})
}

func replayC11(kind string, c json.RawMessage) (string, bool) {
	var t c11Task
	if err := json.Unmarshal(c, &t); err != nil {
		return err.Error(), false
	}
	failed := false
	var desc string
	runPool("c11", 1, [][]byte{mustJSON(t)}, func(i int, pr poolResult) {
		if pr.Crashed {
			failed, desc = true, "worker died: "+lastLines(pr.Stderr, 12)
			return
		}
		var res c11Result
		_ = json.Unmarshal(pr.Res, &res)
		failed, desc = res.Key != "", res.Key+": "+res.Desc+" | "+res.Out
	})
	return desc, failed
}
