package checks

import "github.com/dtn7/dtn7-go/verif/ref"

func refCRC16(s string) uint16 { return ref.CRC16X25([]byte(s)) }
func refCRC32(s string) uint32 { return ref.CRC32C([]byte(s)) }
