package checks

import (
	"encoding/json"
	"fmt"
	"runtime"
	"sort"
	"strings"
	"sync"
	"time"

	"github.com/dtn7/dtn7-go/pkg/bpv7"
	"github.com/dtn7/dtn7-go/pkg/cla"
	"github.com/dtn7/dtn7-go/verif/ev"
	"github.com/dtn7/dtn7-go/verif/gen"
	"github.com/dtn7/dtn7-go/verif/vtime"
)

func init() {
	All["C16"] = Check{Level: "model_checking", Run: runC16, Replay: replayC16}
	workers["c16"] = c16Worker
}

// ---- reference state machine ----

type c16Event struct {
	Op   string `json:"op"`   // register unregister restart peerdis tick close
	Inst int    `json:"inst"` // 0 = A, 1 = A' (same address)
	Out  int    `json:"out"`  // outcome of the next Start: 0 ok, 1 fail-retry, 2 fail-no-retry
}

func (e c16Event) String() string {
	o := []string{"ok", "fail-retry", "fail-noretry"}[e.Out]
	switch e.Op {
	case "tick":
		return "tick(" + o + ")"
	case "close":
		return "close"
	case "unregister":
		return fmt.Sprintf("unregister(%c)", 'A'+e.Inst)
	}
	return fmt.Sprintf("%s(%c,%s)", e.Op, 'A'+e.Inst, o)
}

type c16Model struct {
	Reg    bool
	Inst   int
	Active bool
	Budget int
	Closed bool
}

type c16Config struct {
	Perm   bool `json:"perm"`
	Budget int  `json:"budget"`
	// RecvOnly: the adapters are receivers only (no Send, no peer endpoint), like a listener-side connection
	RecvOnly bool `json:"recv_only,omitempty"`
}

type c16Call struct {
	What string // start / close
	Inst int
}

// tryStart returns the calls made and whether the element must be forgotten
// (failed and must not be retried).
func (m *c16Model) tryStart(cfg c16Config, out int) (calls []c16Call, forget bool) {
	if m.Active {
		return nil, false
	}
	if m.Budget == 0 && !cfg.Perm {
		return nil, true
	}
	calls = []c16Call{{"start", m.Inst}}
	switch out {
	case 0:
		m.Active = true
	case 1:
		if m.Budget > 0 {
			m.Budget--
		}
	case 2:
		m.Budget = 0
		return calls, true
	}
	return calls, false
}

func (m *c16Model) unregister(cfg c16Config, inst int) (calls []c16Call) {
	if !m.Reg || m.Inst != inst {
		return nil
	}
	if m.Active {
		calls = []c16Call{{"close", m.Inst}}
		m.Active = false
		m.Budget = cfg.Budget
	}
	m.Reg = false
	return
}

func (m *c16Model) register(cfg c16Config, inst, out int) (calls []c16Call) {
	if m.Closed {
		return nil
	}
	if m.Reg {
		if m.Active {
			return nil
		}
		calls, _ = m.tryStart(cfg, out) // the known element (and its instance) is kept
		return
	}
	m.Inst, m.Budget = inst, cfg.Budget
	c, forget := m.tryStart(cfg, out)
	m.Reg = !forget
	return c
}

// enabled tells whether the event can be issued in this state; uses tells
// whether its outcome parameter matters (a Start will be attempted).
func (m c16Model) enabled(e c16Event) bool {
	if m.Closed {
		return false
	}
	if e.Op == "peerdis" {
		return m.Reg && m.Active && m.Inst == e.Inst
	}
	return true
}

func (m *c16Model) step(cfg c16Config, e c16Event) (calls []c16Call) {
	switch e.Op {
	case "register":
		return m.register(cfg, e.Inst, e.Out)
	case "unregister":
		return m.unregister(cfg, e.Inst)
	case "restart", "peerdis":
		calls = m.unregister(cfg, e.Inst)
		return append(calls, m.register(cfg, e.Inst, e.Out)...)
	case "tick":
		if m.Reg && !m.Active {
			c, forget := m.tryStart(cfg, e.Out)
			if forget {
				m.Reg = false
			}
			return c
		}
	case "close":
		if m.Reg {
			calls = m.unregister(cfg, m.Inst)
		}
		m.Closed = true
	}
	return
}

func c16Alphabet() []c16Event {
	var out []c16Event
	for inst := 0; inst < 2; inst++ {
		for o := 0; o < 3; o++ {
			out = append(out, c16Event{"register", inst, o}, c16Event{"restart", inst, o}, c16Event{"peerdis", inst, o})
		}
		out = append(out, c16Event{"unregister", inst, 0})
	}
	for o := 0; o < 3; o++ {
		out = append(out, c16Event{"tick", 0, o})
	}
	out = append(out, c16Event{"close", 0, 0})
	return out
}

// ---- scripted adapter ----

type c16Adapter struct {
	inst    int
	perm    bool
	ch      chan cla.ConvergenceStatus
	h       *c16Harness
	started bool // last Start succeeded and Close was not called since (guarded by h.mu)
	// overlap scenarios: Close announces itself on closeEntered and waits for closeGate before it returns
	closeEntered chan struct{}
	closeGate    chan struct{}
	addr         string // "" = the shared address
}

type c16Harness struct {
	mu      sync.Mutex
	log     []c16Call
	nextOut int
	bad     string // first protocol violation seen by an adapter
}

func (a *c16Adapter) Start() (error, bool) {
	a.h.mu.Lock()
	a.h.log = append(a.h.log, c16Call{"start", a.inst})
	o := a.h.nextOut
	if a.started && a.h.bad == "" {
		a.h.bad = fmt.Sprintf("Start called on running adapter %v", a)
	}
	a.started = o == 0
	a.h.mu.Unlock()
	switch o {
	case 1:
		return fmt.Errorf("scripted failure"), true
	case 2:
		return fmt.Errorf("scripted failure"), false
	}
	return nil, false
}
func (a *c16Adapter) Close() error {
	a.h.mu.Lock()
	a.h.log = append(a.h.log, c16Call{"close", a.inst})
	if !a.started && a.h.bad == "" {
		a.h.bad = fmt.Sprintf("Close called on adapter %v that is not started (closed twice or never started)", a)
	}
	a.started = false
	gate, entered := a.closeGate, a.closeEntered
	a.closeGate, a.closeEntered = nil, nil
	a.h.mu.Unlock()
	if gate != nil {
		close(entered)
		<-gate
	}
	return nil
}
func (a *c16Adapter) Channel() chan cla.ConvergenceStatus { return a.ch }
func (a *c16Adapter) Address() string {
	if a.addr != "" {
		return a.addr
	}
	return "mock://shared-address"
}
func (a *c16Adapter) IsPermanent() bool                  { return a.perm }
func (a *c16Adapter) GetEndpointID() bpv7.EndpointID     { return gen.MustEID("dtn://me/") }
func (a *c16Adapter) GetPeerEndpointID() bpv7.EndpointID { return gen.MustEID("dtn://peer/") }
func (a *c16Adapter) Send(bpv7.Bundle) error             { return nil }
func (a *c16Adapter) String() string                     { return fmt.Sprintf("mock-%c", 'A'+a.inst) }

// c16RecvOnly presents an adapter to the manager as a pure ConvergenceReceiver.
type c16RecvOnly struct{ a *c16Adapter }

func (r *c16RecvOnly) Start() (error, bool)                { return r.a.Start() }
func (r *c16RecvOnly) Close() error                        { return r.a.Close() }
func (r *c16RecvOnly) Channel() chan cla.ConvergenceStatus { return r.a.Channel() }
func (r *c16RecvOnly) Address() string                     { return r.a.Address() }
func (r *c16RecvOnly) IsPermanent() bool                   { return r.a.IsPermanent() }
func (r *c16RecvOnly) GetEndpointID() bpv7.EndpointID      { return r.a.GetEndpointID() }
func (r *c16RecvOnly) String() string                      { return r.a.String() }

type c16Task struct {
	Cfg    c16Config  `json:"cfg"`
	Events []c16Event `json:"events"`
	// Overlap names a scenario in which an event arrives while the manager is inside a call into an adapter or
	// while another status of the same adapter is still in flight (see c16Overlap).
	Overlap string `json:"overlap,omitempty"`
}

type c16Result struct {
	Key   string `json:"key,omitempty"`
	Desc  string `json:"desc,omitempty"`
	Obs   string `json:"obs"`
	State string `json:"state"`
}

const c16StepWatchdog = 20 * time.Second

// withWatchdog runs f and reports false if it does not return in time.
func withWatchdog(f func()) bool {
	done := make(chan struct{})
	go func() { f(); close(done) }()
	select {
	case <-done:
		return true
	case <-time.After(c16StepWatchdog):
		return false
	}
}

// c16Replay runs the trace on a fresh real Manager and compares every step with the model.
func c16Replay(t c16Task) (res c16Result) {
	vtime.SetVirtual(vtime.Epoch)
	h := &c16Harness{}
	ads := []*c16Adapter{{inst: 0, perm: t.Cfg.Perm, ch: make(chan cla.ConvergenceStatus), h: h}, {inst: 1, perm: t.Cfg.Perm, ch: make(chan cla.ConvergenceStatus), h: h}}
	// what the manager gets to see of adapter i
	wraps := []*c16RecvOnly{{ads[0]}, {ads[1]}}
	conv := func(i int) cla.Convergence {
		if t.Cfg.RecvOnly {
			return wraps[i]
		}
		return ads[i]
	}
	mgr := cla.NewManager()
	mgr.VerifSetQueueTtl(int32(t.Cfg.Budget))
	// the handler goroutine arms its retry ticker asynchronously: wait until it is armed
	if !withWatchdog(func() {
		for vtime.PendingTimers() == 0 {
			runtime.Gosched()
		}
	}) {
		return c16Result{Key: "C16/harness-no-ticker", Desc: "manager did not arm its retry ticker"}
	}
	model := c16Model{}
	marker := cla.ConvergenceStatus{MessageType: 99}
	var forwarded []cla.ConvergenceStatus
	// flush: inject a marker behind everything the handler has queued and wait for it at the output
	flush := func() bool {
		return withWatchdog(func() {
			go mgr.VerifInject(marker)
			for cs := range mgr.Channel() {
				if cs.MessageType == 99 {
					return
				}
				forwarded = append(forwarded, cs)
			}
		})
	}
	var obs []string
	closed := false
	fail := func(key, desc string) c16Result {
		return c16Result{Key: key, Desc: desc, Obs: strings.Join(obs, " ; ")}
	}
	for i, e := range t.Events {
		if !model.enabled(e) {
			return fail("C16/harness-disabled-event", fmt.Sprintf("event %d %v not enabled in model", i, e))
		}
		h.mu.Lock()
		h.nextOut = e.Out
		before := len(h.log)
		h.mu.Unlock()
		forwarded = nil
		ok := true
		switch e.Op {
		case "register":
			ok = withWatchdog(func() { mgr.Register(conv(e.Inst)) })
		case "unregister":
			ok = withWatchdog(func() { mgr.Unregister(conv(e.Inst)) })
		case "restart":
			ok = withWatchdog(func() { mgr.Restart(conv(e.Inst)) })
		case "peerdis":
			ok = withWatchdog(func() {
				ads[e.Inst].ch <- cla.NewConvergencePeerDisappeared(conv(e.Inst), ads[e.Inst].GetPeerEndpointID())
			})
			if ok {
				// the manager forwards the message after it has restarted the adapter: receiving it is the synchronisation
				ok = withWatchdog(func() {
					for cs := range mgr.Channel() {
						if cs.MessageType == cla.PeerDisappeared {
							return
						}
					}
				})
			}
		case "tick":
			ok = withWatchdog(func() { vtime.Advance(10 * time.Second) })
			if ok {
				ok = flush()
			}
		case "close":
			ok = withWatchdog(func() { _ = mgr.Close() })
			closed = true
		}
		if !ok {
			return fail("C16/deadlock:"+e.Op, fmt.Sprintf("step %d %v did not return within %v (trace %v)", i, e, c16StepWatchdog, t.Events[:i+1]))
		}
		want := model.step(t.Cfg, e)
		h.mu.Lock()
		got := append([]c16Call(nil), h.log[before:]...)
		h.mu.Unlock()
		// observed active set
		var act []string
		if !closed {
			for _, s := range mgr.Sender() {
				act = append(act, "S:"+fmt.Sprint(s))
			}
			for _, rc := range mgr.Receiver() {
				act = append(act, "R:"+fmt.Sprint(rc))
			}
		}
		sort.Strings(act)
		var wantAct []string
		if model.Active && !closed {
			n := fmt.Sprintf("mock-%c", 'A'+model.Inst)
			wantAct = []string{"R:" + n, "S:" + n}
			if t.Cfg.RecvOnly {
				wantAct = []string{"R:" + n}
			}
		}
		obs = append(obs, fmt.Sprintf("%v -> calls %v active %v", e, got, act))
		if fmt.Sprint(act) != fmt.Sprint(wantAct) {
			key := "C16/listed-active-but-not-started"
			if len(act) < len(wantAct) {
				key = "C16/started-but-not-listed"
			}
			if t.Cfg.Perm {
				key += ":permanent"
			}
			return fail(key, fmt.Sprintf("after %v: manager lists %v, reference says %v (model %+v)", t.Events[:i+1], act, wantAct, model))
		}
		if fmt.Sprint(got) != fmt.Sprint(want) {
			return fail("C16/start-close-calls:"+e.Op, fmt.Sprintf("after %v: adapter calls %v, reference expects %v", t.Events[:i+1], got, want))
		}
	}
	// closing: every started adapter is closed exactly once, Close returns
	if !closed {
		if !withWatchdog(func() { _ = mgr.Close() }) {
			return fail("C16/deadlock:final-close", fmt.Sprintf("Close did not return after %v", t.Events))
		}
	}
	h.mu.Lock()
	bad := h.bad
	running := ""
	for _, a := range ads {
		if a.started {
			running += a.String() + " "
		}
	}
	logCopy := fmt.Sprint(h.log)
	h.mu.Unlock()
	if bad != "" {
		return fail("C16/adapter-protocol", fmt.Sprintf("%v: %s; log %s", t.Events, bad, logCopy))
	}
	if running != "" {
		return fail("C16/close-leaves-adapter-running", fmt.Sprintf("%v: after Manager.Close still running: %s; log %s", t.Events, running, logCopy))
	}
	res.Obs = strings.Join(obs, " ; ")
	res.State = fmt.Sprintf("%+v", model)
	return
}

func c16Worker(task []byte) []byte {
	var t c16Task
	if err := json.Unmarshal(task, &t); err == nil && t.Overlap != "" {
		return mustJSON(c16Overlap(t))
	}
	if err := json.Unmarshal(task, &t); err != nil {
		return mustJSON(c16Result{Key: "C16/harness", Desc: err.Error()})
	}
	return mustJSON(c16Replay(t))
}

func runC16(r *ev.Run, thorough bool) int {
	alpha := c16Alphabet()
	depth := 4
	if thorough {
		depth = 5
	}
	var tasks []c16Task
	states := map[string]bool{}
	transitions := 0
	for _, perm := range []bool{false, true} {
		for budget := 0; budget <= 3; budget++ {
			cfg := c16Config{Perm: perm, Budget: budget}
			// (1) BFS over the reference machine to its fixpoint; one trace per transition
			type node struct {
				m     c16Model
				trace []c16Event
			}
			key := func(m c16Model) string { return fmt.Sprintf("%v/%+v", cfg, m) }
			seen := map[string]bool{key(c16Model{}): true}
			states[key(c16Model{})] = true
			frontier := []node{{}}
			for len(frontier) > 0 {
				n := frontier[0]
				frontier = frontier[1:]
				for _, e := range alpha {
					if !n.m.enabled(e) {
						continue
					}
					m2 := n.m
					calls := m2.step(cfg, e)
					// the outcome parameter only matters if a Start is attempted
					if e.Out != 0 {
						started := false
						for _, c := range calls {
							started = started || c.What == "start"
						}
						if !started {
							continue
						}
					}
					transitions++
					tr := append(append([]c16Event(nil), n.trace...), e)
					tasks = append(tasks, c16Task{Cfg: cfg, Events: tr})
					if k := key(m2); !seen[k] {
						seen[k] = true
						states[k] = true
						frontier = append(frontier, node{m2, tr})
					}
				}
			}
			// (2) every event sequence up to the depth bound (no state merging)
			var rec func(m c16Model, tr []c16Event)
			// the deepest level of the thorough tier for one configuration only (the number of sequences grows by a
			// factor of about ten per level)
			cfgDepth := depth
			if thorough && !(budget == 1 && !perm) {
				cfgDepth = depth - 1
			}
			rec = func(m c16Model, tr []c16Event) {
				if len(tr) == cfgDepth {
					tasks = append(tasks, c16Task{Cfg: cfg, Events: append([]c16Event(nil), tr...)})
					return
				}
				leaf := true
				for _, e := range alpha {
					if !m.enabled(e) {
						continue
					}
					m2 := m
					calls := m2.step(cfg, e)
					if e.Out != 0 {
						started := false
						for _, c := range calls {
							started = started || c.What == "start"
						}
						if !started {
							continue
						}
					}
					leaf = false
					rec(m2, append(tr, e))
				}
				if leaf && len(tr) > 0 {
					tasks = append(tasks, c16Task{Cfg: cfg, Events: append([]c16Event(nil), tr...)})
				}
			}
			rec(c16Model{}, nil)
		}
	}
	// receiver-only adapters: one trace per transition of the reference machine (budget 2)
	for _, perm := range []bool{false, true} {
		cfg := c16Config{Perm: perm, Budget: 2, RecvOnly: true}
		type node struct {
			m     c16Model
			trace []c16Event
		}
		seen := map[string]bool{fmt.Sprintf("%+v", c16Model{}): true}
		frontier := []node{{}}
		for len(frontier) > 0 {
			n := frontier[0]
			frontier = frontier[1:]
			for _, e := range alpha {
				if !n.m.enabled(e) {
					continue
				}
				m2 := n.m
				calls := m2.step(cfg, e)
				if e.Out != 0 {
					started := false
					for _, c := range calls {
						started = started || c.What == "start"
					}
					if !started {
						continue
					}
				}
				tr := append(append([]c16Event(nil), n.trace...), e)
				tasks = append(tasks, c16Task{Cfg: cfg, Events: tr})
				if k := fmt.Sprintf("%+v", m2); !seen[k] {
					seen[k] = true
					frontier = append(frontier, node{m2, tr})
				}
			}
		}
	}
	for _, perm := range []bool{false, true} {
		for _, ov := range c16Overlaps {
			tasks = append(tasks, c16Task{Cfg: c16Config{Perm: perm, Budget: 2}, Overlap: ov})
		}
	}
	raw := make([][]byte, len(tasks))
	for i, t := range tasks {
		raw[i] = mustJSON(t)
	}
	var mu sync.Mutex
	outcomes := map[string]bool{}
	validated := 0
	runPool("c16", 0, raw, func(i int, pr poolResult) {
		mu.Lock()
		defer mu.Unlock()
		if pr.Crashed {
			key := "C16/manager-crashed"
			if strings.Contains(pr.Stderr, "close of nil channel") {
				key = "C16/panic-close-of-nil-channel"
			} else if strings.Contains(pr.Stderr, "watchdog") {
				key = "C16/worker-hang"
			}
			if tasks[i].Cfg.Perm {
				key += ":permanent"
			}
			r.Violation(key, "trace", fmt.Sprintf("worker died replaying %v (cfg %+v): %s", tasks[i].Events, tasks[i].Cfg, lastLines(pr.Stderr, 12)), tasks[i])
			return
		}
		var res c16Result
		if err := json.Unmarshal(pr.Res, &res); err != nil {
			r.Violation("C16/harness-result", "trace", err.Error()+": "+string(pr.Res), tasks[i])
			return
		}
		validated++
		outcomes[res.Obs] = true
		if res.Key != "" {
			r.Violation(res.Key, "trace", res.Desc, tasks[i])
		}
		if i%997 == 0 {
			r.Sample(map[string]interface{}{"cfg": tasks[i].Cfg, "trace": fmt.Sprint(tasks[i].Events), "observed": res.Obs})
		}
	})
	r.Add("traces", int64(len(tasks)))
	r.Add("distinct_observation_sequences", int64(len(outcomes)))
	if len(outcomes) < 10 {
		r.Violation("C16/vacuous", "none", "too few distinct outcomes", nil)
	}
	return r.Finish(map[string]interface{}{
		"states":                        len(states),
		"transitions":                   transitions,
		"traces_validated_against_impl": validated,
		"evaluations":                   len(tasks),
		"distinct_nontrivial":           len(outcomes),
		"rule":                          fmt.Sprintf("reference state machine (registered instance, active, retry budget, closed) explored by BFS to its fixpoint for permanent/non-permanent adapters and initial budgets 0..3 (one trace per transition), plus every enabled event sequence up to depth %d without state merging; every trace is replayed step by step on a fresh real cla.Manager with scripted adapters under the virtual clock; after each step Sender()/Receiver() and the Start/Close call log are compared with the reference; plus %d overlap scenarios (a retry tick while the manager is inside an adapter's Close, a peer-disappeared status followed at once by another status of the same adapter, the same followed by Close) in which the harness decides when the call into the adapter returns", depth, 2*len(c16Overlaps)),
	}, []string{"events after Close are not explored (the statement does not define them)", "retry ticks are delivered by advancing the virtual clock through the manager's real ticker; quiescence by a marker message through the manager's own channel"})
}

func lastLines(s string, n int) string {
	ls := strings.Split(strings.TrimSpace(s), "\n")
	// keep the panic header
	for i, l := range ls {
		if strings.HasPrefix(l, "panic:") || strings.HasPrefix(l, "fatal error:") {
			end := i + n
			if end > len(ls) {
				end = len(ls)
			}
			return strings.Join(ls[i:end], " | ")
		}
	}
	if len(ls) > n {
		ls = ls[len(ls)-n:]
	}
	return strings.Join(ls, " | ")
}

func replayC16(kind string, c json.RawMessage) (string, bool) {
	var t c16Task
	if err := json.Unmarshal(c, &t); err != nil {
		return err.Error(), false
	}
	failed := false
	var desc string
	runPool("c16", 1, [][]byte{mustJSON(t)}, func(i int, pr poolResult) {
		if pr.Crashed {
			failed, desc = true, "worker died: "+lastLines(pr.Stderr, 12)
			return
		}
		var res c16Result
		_ = json.Unmarshal(pr.Res, &res)
		failed, desc = res.Key != "", res.Key+": "+res.Desc+" | "+res.Obs
	})
	return desc, failed
}

// ---- events overlapping a call into an adapter / a status burst ----

// (Two API calls for one adapter running concurrently in two caller goroutines - e.g. Restart while Unregister is
// inside the adapter's Close - are outside the property's quantifier, which ranges over sequences; the retry tick
// and the adapters' status messages are asynchronous to the caller by nature and are what is overlapped here.)
var c16Overlaps = []string{"tick-during-close", "status-burst", "status-burst-then-close", "register-during-manager-close"}

// c16Overlap runs one overlap scenario on a fresh real Manager. The adapters are the manager's environment: the
// harness decides when a call into one returns, which is how another event is placed inside that call.
func c16Overlap(t c16Task) (res c16Result) {
	vtime.SetVirtual(vtime.Epoch)
	h := &c16Harness{}
	a := &c16Adapter{inst: 0, perm: t.Cfg.Perm, ch: make(chan cla.ConvergenceStatus), h: h}
	mgr := cla.NewManager()
	mgr.VerifSetQueueTtl(int32(t.Cfg.Budget))
	if !withWatchdog(func() {
		for vtime.PendingTimers() == 0 {
			runtime.Gosched()
		}
	}) {
		return c16Result{Key: "C16/harness-no-ticker", Desc: "manager did not arm its retry ticker"}
	}
	// drain what the manager forwards
	var fmu sync.Mutex
	forwarded := map[cla.ConvergenceMessageType]int{}
	stopDrain := make(chan struct{})
	defer close(stopDrain)
	go func() {
		for {
			select {
			case cs := <-mgr.Channel():
				fmu.Lock()
				forwarded[cs.MessageType]++
				fmu.Unlock()
			case <-stopDrain:
				return
			}
		}
	}()
	nForwarded := func(mt cla.ConvergenceMessageType) int { fmu.Lock(); defer fmu.Unlock(); return forwarded[mt] }
	flush := func() bool {
		before := nForwarded(99)
		return withWatchdog(func() {
			mgr.VerifInject(cla.ConvergenceStatus{MessageType: 99})
			for nForwarded(99) == before {
				time.Sleep(50 * time.Microsecond)
			}
		})
	}
	fail := func(key, desc string) c16Result { return c16Result{Key: key, Desc: t.Overlap + ": " + desc} }
	h.nextOut = 0
	if !withWatchdog(func() { mgr.Register(a) }) || !flush() {
		return fail("C16/deadlock:register", "Register did not return")
	}
	calls := func() (starts, closes int) {
		h.mu.Lock()
		defer h.mu.Unlock()
		for _, c := range h.log {
			if c.What == "start" {
				starts++
			} else {
				closes++
			}
		}
		return
	}
	listed := func() int { return len(mgr.Sender()) + len(mgr.Receiver()) }
	wantStarts, wantCloses, wantListed := 1, 0, 2
	switch t.Overlap {
	case "tick-during-close", "restart-during-close":
		gate, entered := make(chan struct{}), make(chan struct{})
		h.mu.Lock()
		a.closeGate, a.closeEntered = gate, entered
		h.mu.Unlock()
		unregDone := make(chan struct{})
		go func() { mgr.Unregister(a); close(unregDone) }()
		if !withWatchdog(func() { <-entered }) {
			return fail("C16/deadlock:unregister", "Unregister never called the adapter's Close")
		}
		// the adapter is inside Close now
		if t.Overlap == "tick-during-close" {
			if !withWatchdog(func() { vtime.Advance(10 * time.Second) }) {
				return fail("C16/deadlock:tick", "the manager did not take the retry tick while an adapter was closing")
			}
		} else {
			go mgr.Restart(a)
		}
		time.Sleep(30 * time.Millisecond) // scheduling aid only: lets the manager act on the event before Close returns
		close(gate)
		if !withWatchdog(func() { <-unregDone }) {
			return fail("C16/deadlock:unregister", "Unregister did not return after the adapter's Close returned")
		}
		if t.Overlap == "restart-during-close" {
			// Restart = Unregister + Register: the adapter ends registered and started again, exactly one instance
			waitFor(func() bool { s, _ := calls(); return s >= 2 })
			if !flush() {
				return fail("C16/deadlock:restart", "the manager stopped processing after a Restart overlapping an Unregister")
			}
			s, c := calls()
			if s-c != listed()/2 || s-c < 0 || s-c > 1 {
				return fail("C16/listed-active-but-not-started", fmt.Sprintf("after Unregister overlapped by Restart: %d starts, %d closes, %d list entries", s, c, listed()))
			}
			wantStarts, wantCloses, wantListed = s, c, listed()
			break
		}
		if !flush() {
			return fail("C16/deadlock:tick", "the manager stopped processing after a retry tick overlapping an Unregister")
		}
		wantStarts, wantCloses, wantListed = 1, 1, 0
		// a later tick must not revive the unregistered adapter
		if !withWatchdog(func() { vtime.Advance(10 * time.Second) }) || !flush() {
			return fail("C16/deadlock:tick", "retry tick after the overlap did not complete")
		}
	case "register-during-manager-close":
		// Manager.Close is inside adapter A's Close when another adapter is registered (listeners register the
		// adapters of incoming connections from goroutines of their own): whatever is started must be stopped
		gate, entered := make(chan struct{}), make(chan struct{})
		h.mu.Lock()
		a.closeGate, a.closeEntered = gate, entered
		h.mu.Unlock()
		late := &c16Adapter{inst: 1, perm: t.Cfg.Perm, ch: make(chan cla.ConvergenceStatus), h: h, addr: "mock://late-adapter"}
		closeDone := make(chan struct{})
		go func() { _ = mgr.Close(); close(closeDone) }()
		if !withWatchdog(func() { <-entered }) {
			return fail("C16/deadlock:close", "Manager.Close never called the adapter's Close")
		}
		regDone := make(chan struct{})
		go func() { mgr.Register(late); close(regDone) }()
		time.Sleep(30 * time.Millisecond) // scheduling aid only
		close(gate)
		if !withWatchdog(func() { <-closeDone }) {
			return fail("C16/deadlock:final-close", "Manager.Close did not return")
		}
		withWatchdog(func() { <-regDone })
		time.Sleep(10 * time.Millisecond)
		h.mu.Lock()
		bad, runA, runLate := h.bad, a.started, late.started
		h.mu.Unlock()
		if bad != "" {
			return fail("C16/adapter-protocol", bad)
		}
		if runA || runLate {
			s, c := calls()
			return fail("C16/close-leaves-adapter-running", fmt.Sprintf("an adapter registered while Manager.Close was in progress is still running after Close returned (A running=%v, late adapter running=%v; %d starts, %d closes)", runA, runLate, s, c))
		}
		s, c := calls()
		res.Obs = fmt.Sprintf("%s: starts=%d closes=%d", t.Overlap, s, c)
		res.State = t.Overlap
		return
	case "status-burst", "status-burst-then-close":
		// two status messages of one adapter back to back: its peer disappeared (the manager restarts the adapter)
		// and a further message right behind it
		burstDone := make(chan struct{})
		go func() {
			a.ch <- cla.NewConvergencePeerDisappeared(a, a.GetPeerEndpointID())
			a.ch <- cla.ConvergenceStatus{Sender: a, MessageType: 98}
			close(burstDone)
		}()
		if t.Overlap == "status-burst-then-close" {
			withWatchdog(func() {
				for nForwarded(cla.PeerDisappeared) == 0 {
					time.Sleep(50 * time.Microsecond)
				}
			})
			break // the final Close below must still return and stop the adapter
		}
		if !withWatchdog(func() {
			for nForwarded(cla.PeerDisappeared) == 0 {
				time.Sleep(50 * time.Microsecond)
			}
		}) {
			return fail("C16/deadlock:peerdis", "a peer-disappeared status followed at once by another status of the same adapter was never forwarded")
		}
		if !flush() {
			return fail("C16/deadlock:peerdis", "the manager stopped processing after a status burst of one adapter (restart in progress while the adapter's next status was in flight)")
		}
		// the second message may legitimately be dropped with the old supervising goroutine; the restart must be complete
		wantStarts, wantCloses, wantListed = 2, 1, 2
		select {
		case <-burstDone:
		default:
			// the adapter's second send is still blocked: nobody listens to the restarted adapter's channel
			if !withWatchdog(func() { <-burstDone }) {
				return fail("C16/status-of-restarted-adapter-not-taken", "after the restart nobody receives from the adapter's status channel")
			}
		}
	}
	if t.Overlap != "status-burst-then-close" {
		s, c := calls()
		if s != wantStarts || c != wantCloses || listed() != wantListed {
			key := "C16/start-close-calls:overlap"
			if listed() != wantListed {
				key = "C16/listed-active-but-not-started"
				if listed() < wantListed {
					key = "C16/started-but-not-listed"
				}
			}
			return fail(key, fmt.Sprintf("adapter calls: %d starts %d closes, %d list entries; expected %d / %d / %d", s, c, listed(), wantStarts, wantCloses, wantListed))
		}
	}
	if !withWatchdog(func() { _ = mgr.Close() }) {
		return fail("C16/deadlock:final-close", "Manager.Close did not return")
	}
	h.mu.Lock()
	bad, running := h.bad, a.started
	h.mu.Unlock()
	if bad != "" {
		return fail("C16/adapter-protocol", bad)
	}
	if running {
		s, c := calls()
		return fail("C16/close-leaves-adapter-running", fmt.Sprintf("after Manager.Close the adapter is still running (%d starts, %d closes)", s, c))
	}
	s, c := calls()
	res.Obs = fmt.Sprintf("%s: starts=%d closes=%d", t.Overlap, s, c)
	res.State = t.Overlap
	return
}
