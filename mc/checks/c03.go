package checks

import (
	"encoding/hex"
	"encoding/json"
	"fmt"
	"sync/atomic"

	"github.com/dtn7/dtn7-go/pkg/bpv7"
	"github.com/dtn7/dtn7-go/verif/ev"
	"github.com/dtn7/dtn7-go/verif/gen"
	"github.com/dtn7/dtn7-go/verif/par"
	"github.com/dtn7/dtn7-go/verif/ref"
)

func init() {
	All["C03"] = Check{Level: "fault_enumeration", Run: runC03, Replay: replayC03}
}

type c03Case struct {
	Hex   string `json:"hex"`              // original encoding
	Start int    `json:"start_bit"`        // first flipped bit
	Len   int    `json:"burst_len"`        // burst length in bits (1 = single flip)
	Pat   uint64 `json:"interior_pattern"` // bit i (1<=i<=Len-2) of the burst flipped iff bit i-1 set
}

// c03Bundles are fully CRC-protected bundles of 60-400 bytes: all CRC-type
// mixes, fragments, every block type.
func c03Bundles(n int) []gen.Spec {
	base := gen.Spec{Dst: "dtn://dst/", Src: "dtn://src/", Rpt: "ipn:2.3", PCRC: 2, Time: DtnNow(), Seq: 1, Lifetime: 3600000, PayLen: 11, PayCRC: 2}
	kinds := gen.ExtKinds()
	var out []gen.Spec
	mix := [][3]uint64{{2, 2, 2}, {1, 1, 1}, {1, 2, 1}, {2, 1, 2}, {2, 2, 1}, {1, 1, 2}}
	for i := 0; len(out) < n; i++ {
		s := base
		m := mix[i%len(mix)]
		s.PCRC, s.PayCRC = m[0], m[2]
		s.PayLen = []int{11, 0, 1, 24, 40, 100, 256, 300}[i%8]
		s.Seq = uint64(i)
		k1 := kinds[i%len(kinds)]
		k1.CRC = m[1]
		s.Ext = []gen.BSpec{k1}
		if i%3 == 1 {
			k2 := kinds[(i*7+3)%len(kinds)]
			if k2.Kind != k1.Kind {
				k2.CRC = m[1]%2 + 1
				s.Ext = append(s.Ext, k2)
			}
		}
		if i%4 == 2 {
			s.Flags = ref.FIsFragment
			s.FragOff = uint64(i * 10)
			s.Total = 70000
		}
		if i%5 == 3 {
			s.Src, s.Rpt = "dtn:none", "dtn:none"
			s.Flags = ref.FMustNotFrag
		}
		if i%7 == 4 {
			s.Dst = "ipn:18446744073709551615.1"
		}
		out = append(out, s)
	}
	return out
}

func flipBurst(enc []byte, start, l int, pat uint64) []byte {
	m := append([]byte(nil), enc...)
	flip := func(bit int) { m[bit/8] ^= 0x80 >> uint(bit%8) }
	flip(start)
	if l > 1 {
		flip(start + l - 1)
		for i := 1; i <= l-2; i++ {
			if pat&(1<<uint(i-1)) != 0 {
				flip(start + i)
			}
		}
	}
	return m
}

// blockRanges returns the byte ranges of the blocks of an encoding.
func blockRanges(enc []byte) ([][2]int, error) {
	top, err := ref.Tokenize(enc, 0, 0)
	if err != nil {
		return nil, err
	}
	if !top.Indef {
		return nil, fmt.Errorf("not indefinite")
	}
	var out [][2]int
	for _, k := range top.Kids {
		out = append(out, [2]int{k.Start, k.End})
	}
	if top.End != len(enc) {
		return nil, fmt.Errorf("trailing")
	}
	return out, nil
}

func sameRanges(a, b [][2]int) bool {
	if len(a) != len(b) {
		return false
	}
	for i := range a {
		if a[i] != b[i] {
			return false
		}
	}
	return true
}

// c03Judge evaluates one corrupted encoding. mustReject: the corruption lies in
// the class the property demands rejection for.
func c03Judge(orig, m []byte, single bool, origRanges [][2]int, start, l int) (key, desc string, rejected bool) {
	defer func() {
		if r := recover(); r != nil {
			key, desc = "C03/panic", fmt.Sprintf("parser panicked: %v", r)
		}
	}()
	_, err := gen.Parse(m)
	if err != nil {
		return "", "", true
	}
	// accepted: independent judgement
	mr, rerr := blockRanges(m)
	if rerr != nil {
		return "C03/accepted-undelimitable", fmt.Sprintf("parser accepted a corrupted encoding whose blocks the reference cannot delimit (%v)", rerr), false
	}
	bad, berr := ref.CRCMismatches(m)
	if berr != nil {
		return "C03/accepted-undelimitable", berr.Error(), false
	}
	if len(bad) > 0 {
		return "C03/accepted-with-crc-mismatch", fmt.Sprintf("parser accepted although %v", bad), false
	}
	if single {
		return "C03/single-bit-flip-accepted", fmt.Sprintf("bit %d flipped, parser accepted", start), false
	}
	if sameRanges(mr, origRanges) {
		// boundaries intact and burst within one block?
		b0, b1 := start/8, (start+l-1)/8
		for _, rg := range origRanges {
			if b0 >= rg[0] && b1 < rg[1] {
				return "C03/burst-accepted", fmt.Sprintf("burst of %d bits at bit %d inside block [%d,%d) accepted", l, start, rg[0], rg[1]), false
			}
		}
	}
	return "", "", false
}

func runC03(r *ev.Run, thorough bool) int {
	useVirtualClock()
	gen.RegisterAll()
	nb, maxFull := 8, 7
	if thorough {
		nb, maxFull = 60, 12
	}
	specs := c03Bundles(nb)
	var nFlip, nBurst, nRejected, nCross, nSer int64
	// (1) serialiser writes the reference CRC; created primary blocks always carry one
	_, dims := gen.Dims(DtnNow())
	_ = dims
	for i, s := range specs {
		b := s.Build()
		enc, err := gen.Ser(&b)
		if err != nil {
			r.Violation("C03/harness", "none", err.Error(), nil)
			continue
		}
		nSer++
		if bad, err := ref.CRCMismatches(enc); err != nil || len(bad) > 0 {
			r.Violation("C03/serialiser-crc-differs-from-reference", "ser", fmt.Sprintf("%v %v", bad, err), c03Case{Hex: hex.EncodeToString(enc)})
		}
		if i < 3 {
			r.Sample(map[string]interface{}{"bundle_hex": hex.EncodeToString(enc)})
		}
	}
	// (1a) large blocks (the CRC covers the whole block, however long): payloads whose block encoding crosses the
	// 4 KiB / 32 KiB / 64 KiB / 128 KiB marks, both CRC types: the written CRC equals the reference, and a single-bit
	// flip at every byte offset in a window around each power-of-two mark of the encoding (and at the mark of the
	// payload block itself) is rejected
	var nLarge int64
	for _, pl := range []int{4090, 32760, 65500, 65536, 70000, 131100} {
		for _, ct := range []uint64{1, 2} {
			sp := gen.Spec{Dst: "dtn://dst/", Src: "dtn://src/", Rpt: "ipn:2.3", PCRC: ct, Time: DtnNow(), Seq: uint64(pl), Lifetime: 3600000, PayLen: pl, PayCRC: ct}
			b := sp.Build()
			enc, err := gen.Ser(&b)
			if err != nil {
				r.Violation("C03/harness", "none", err.Error(), nil)
				continue
			}
			nSer++
			if bad, err := ref.CRCMismatches(enc); err != nil || len(bad) > 0 {
				r.Violation("C03/serialiser-crc-differs-from-reference", "ser", fmt.Sprintf("payload of %d octets, CRC type %d: %v %v", pl, ct, bad, err), map[string]interface{}{"payload_len": pl, "crc": ct})
				continue
			}
			rgs, rerr := blockRanges(enc)
			if rerr != nil || len(rgs) == 0 {
				r.Violation("C03/harness", "none", fmt.Sprint(rerr), nil)
				continue
			}
			pay := rgs[len(rgs)-1]
			offs := map[int]bool{}
			for _, mark := range []int{4096, 32768, 65536, 131072} {
				for d := -12; d <= 12; d++ {
					for _, base := range []int{0, pay[0]} {
						if o := base + mark + d; o >= pay[0] && o < pay[1] {
							offs[o] = true
						}
					}
				}
			}
			for o := range offs {
				m := append([]byte{}, enc...)
				m[o] ^= 1 << uint(o%8)
				nLarge++
				nFlip++
				if k, d, rej := c03Judge(enc, m, true, rgs, o*8, 1); k != "" {
					r.Violation(k+":large-block", "flip", fmt.Sprintf("payload of %d octets, CRC type %d, byte offset %d (block offset %d): %s", pl, ct, o, o-pay[0], d), map[string]interface{}{"payload_len": pl, "crc": ct, "byte": o})
					break
				} else if rej {
					nRejected++
				}
			}
		}
	}
	r.Add("large_block_flips", nLarge)
	for _, ct := range []bpv7.CRCType{bpv7.CRCNo, bpv7.CRC16, bpv7.CRC32} {
		for _, frag := range []bool{false, true} {
			bb := bpv7.Builder().CRC(ct).Source("dtn://src/").Destination("dtn://dst/").CreationTimestampNow().Lifetime("10m").PayloadBlock([]byte("hello"))
			if frag {
				bb = bb.BundleCtrlFlags(bpv7.IsFragment)
			}
			b, err := bb.Build()
			if err != nil {
				r.Violation("C03/harness-builder", "none", err.Error(), nil)
				continue
			}
			nSer++
			enc, _ := gen.Ser(&b)
			rb, derr := ref.Decode(enc)
			if derr != nil || !rb.P.HasCRC || !b.PrimaryBlock.HasCRC() {
				r.Violation("C03/created-primary-without-crc", "ser", fmt.Sprintf("builder with CRC type %v produced a primary block without CRC (%v)", ct, derr), c03Case{Hex: hex.EncodeToString(enc)})
			}
			if bad, _ := ref.CRCMismatches(enc); len(bad) > 0 {
				r.Violation("C03/serialiser-crc-differs-from-reference", "ser", fmt.Sprint(bad), c03Case{Hex: hex.EncodeToString(enc)})
			}
			pb := bpv7.NewPrimaryBlock(0, gen.MustEID("dtn://d/"), gen.MustEID("dtn://s/"), bpv7.NewCreationTimestamp(bpv7.DtnTimeNow(), 0), 1000)
			pb.SetCRCType(ct)
			if !pb.HasCRC() || len(pb.CRC) == 0 {
				r.Violation("C03/created-primary-without-crc", "ser", fmt.Sprintf("SetCRCType(%v) left the primary block without CRC", ct), nil)
			}
		}
	}
	// (1b) the serialiser recomputes CRCs after the bundle was changed in memory: every sequence of up to two
	// in-place mutations (the ones the node performs while forwarding) applied to a bundle that was freshly
	// built, serialised once, or parsed; after every step the written CRCs must equal the reference
	muts := []struct {
		name string
		f    func(b *bpv7.Bundle)
	}{
		{"hop++", func(b *bpv7.Bundle) {
			if cb, err := b.ExtensionBlock(bpv7.ExtBlockTypeHopCountBlock); err == nil {
				cb.Value.(*bpv7.HopCountBlock).Increment()
			}
		}},
		{"age+=5", func(b *bpv7.Bundle) {
			if cb, err := b.ExtensionBlock(bpv7.ExtBlockTypeBundleAgeBlock); err == nil {
				cb.Value.(*bpv7.BundleAgeBlock).Increment(5)
			}
		}},
		{"prevnode:=x", func(b *bpv7.Bundle) {
			if cb, err := b.ExtensionBlock(bpv7.ExtBlockTypePreviousNodeBlock); err == nil {
				cb.Value = bpv7.NewPreviousNodeBlock(gen.MustEID("dtn://other/"))
			}
		}},
		{"seq++", func(b *bpv7.Bundle) { b.PrimaryBlock.CreationTimestamp[1]++ }},
		{"lifetime++", func(b *bpv7.Bundle) { b.PrimaryBlock.Lifetime++ }},
		{"payload:=y", func(b *bpv7.Bundle) {
			if cb, err := b.PayloadBlock(); err == nil {
				cb.Value = bpv7.NewPayloadBlock([]byte("changed payload"))
			}
		}},
		{"addblock", func(b *bpv7.Bundle) {
			cb := bpv7.NewCanonicalBlock(0, 0, bpv7.NewGenericExtensionBlock([]byte{1, 2, 3}, 222))
			cb.SetCRCType(bpv7.CRC16)
			b.AddExtensionBlock(cb)
		}},
		{"spray:=3", func(b *bpv7.Bundle) {
			if cb, err := b.ExtensionBlock(bpv7.ExtBlockTypeBinarySprayBlock); err == nil {
				cb.Value.(*bpv7.BinarySprayBlock).SetCopies(3)
			}
		}},
	}
	seqSpecs := []gen.Spec{}
	{
		s := gen.Spec{Dst: "dtn://dst/", Src: "dtn://src/", Rpt: "dtn://src/", PCRC: 2, Time: DtnNow(), Lifetime: 3600000, PayLen: 9, PayCRC: 2,
			Ext: []gen.BSpec{{Kind: "hop", N: []uint64{64, 3}, CRC: 2}, {Kind: "age", N: []uint64{10}, CRC: 1}, {Kind: "prev", S: []string{"dtn://p/"}, CRC: 2}, {Kind: "spray", N: []uint64{8}, CRC: 1}}}
		seqSpecs = append(seqSpecs, s)
		s2 := s
		s2.PCRC, s2.PayCRC = 1, 1
		for i := range s2.Ext {
			s2.Ext = append([]gen.BSpec(nil), s2.Ext...)
			s2.Ext[i].CRC = 3 - s2.Ext[i].CRC
		}
		seqSpecs = append(seqSpecs, s2)
	}
	var nSeq int64
	checkSer := func(b *bpv7.Bundle, what string) {
		nSeq++
		enc, err := gen.Ser(b)
		if err != nil {
			r.Violation("C03/harness-seq-ser", "none", what+": "+err.Error(), nil)
			return
		}
		if bad, err := ref.CRCMismatches(enc); err != nil || len(bad) > 0 {
			r.Violation("C03/stale-crc-after-mutation", "none", fmt.Sprintf("after %s the serialiser wrote %v (%v)", what, bad, err), map[string]string{"sequence": what, "hex": hex.EncodeToString(enc)})
		}
	}
	for si, s := range seqSpecs {
		for origin := 0; origin < 3; origin++ {
			for a := 0; a < len(muts); a++ {
				for c := -1; c < len(muts); c++ {
					b := s.Build()
					what := fmt.Sprintf("spec%d/", si)
					switch origin {
					case 1:
						_, _ = gen.Ser(&b)
						what += "serialised-once"
					case 2:
						enc, _ := gen.Ser(&b)
						pb, err := gen.Parse(enc)
						if err != nil {
							continue
						}
						b = pb
						what += "parsed"
					default:
						what += "fresh"
					}
					muts[a].f(&b)
					what += "," + muts[a].name
					checkSer(&b, what)
					if c >= 0 {
						muts[c].f(&b)
						what += "," + muts[c].name
						checkSer(&b, what)
					}
				}
			}
		}
	}
	r.Add("mutate_then_serialise_steps", nSeq)
	// (2) corruption
	type job struct {
		enc []byte
		rg  [][2]int
		lo  int // start bits [lo,hi)
		hi  int
	}
	var jobs []job
	for _, s := range specs {
		b := s.Build()
		enc, err := gen.Ser(&b)
		if err != nil {
			continue
		}
		if _, err := gen.Parse(enc); err != nil {
			r.Violation("C03/harness-own-encoding-rejected", "none", err.Error(), nil)
			continue
		}
		rg, err := blockRanges(enc)
		if err != nil {
			r.Violation("C03/harness-ranges", "none", err.Error(), nil)
			continue
		}
		bits := len(enc) * 8
		for lo := 0; lo < bits; lo += 256 {
			hi := lo + 256
			if hi > bits {
				hi = bits
			}
			jobs = append(jobs, job{enc, rg, lo, hi})
		}
	}
	structured := func(l int) []uint64 {
		in := uint(l - 2)
		all := uint64(1)<<in - 1
		var alt1, alt2 uint64
		for i := uint(0); i < in; i++ {
			if i%2 == 0 {
				alt1 |= 1 << i
			} else {
				alt2 |= 1 << i
			}
		}
		return []uint64{0, all, alt1, alt2, 1, uint64(1) << (in - 1), all &^ 1, all >> 1}
	}
	par.For(len(jobs), func(ji int) {
		j := jobs[ji]
		bits := len(j.enc) * 8
		for start := j.lo; start < j.hi; start++ {
			// width of the covering block
			w := 32
			by := start / 8
			for bi, rg := range j.rg {
				if by >= rg[0] && by < rg[1] {
					// CRC type of block bi
					if bad := crcTypeOfBlock(j.enc, bi); bad == 1 {
						w = 16
					}
				}
			}
			// single flip
			atomic.AddInt64(&nFlip, 1)
			m := flipBurst(j.enc, start, 1, 0)
			if k, d, rej := c03Judge(j.enc, m, true, j.rg, start, 1); k != "" {
				r.Violation(k, "burst", d, c03Case{hex.EncodeToString(j.enc), start, 1, 0})
			} else if rej {
				atomic.AddInt64(&nRejected, 1)
			}
			for l := 2; l <= w && start+l <= bits; l++ {
				var pats []uint64
				if l <= maxFull {
					for p := uint64(0); p < 1<<uint(l-2); p++ {
						pats = append(pats, p)
					}
				} else {
					pats = structured(l)
				}
				for _, p := range pats {
					atomic.AddInt64(&nBurst, 1)
					m := flipBurst(j.enc, start, l, p)
					k, d, rej := c03Judge(j.enc, m, false, j.rg, start, l)
					if k != "" {
						r.Violation(k, "burst", d, c03Case{hex.EncodeToString(j.enc), start, l, p})
					} else if rej {
						atomic.AddInt64(&nRejected, 1)
					} else {
						atomic.AddInt64(&nCross, 1)
					}
				}
			}
		}
	})
	r.Add("bundles", int64(len(specs)))
	r.Add("serialisations_checked_against_reference_crc", nSer)
	r.Add("single_bit_flips", nFlip)
	r.Add("bursts", nBurst)
	r.Add("rejected", nRejected)
	r.Add("accepted_outside_must_reject_class", nCross)
	if maxFull < 32 {
		r.Capped(fmt.Sprintf("interior patterns enumerated completely for burst length <= %d; 8 structured patterns per (start,length) above", maxFull))
	}
	if nFlip == 0 || nBurst == 0 {
		r.Violation("C03/vacuous", "none", "nothing explored", nil)
	}
	return r.Finish(map[string]interface{}{
		"evaluations":         nFlip + nBurst + nSer,
		"distinct_nontrivial": nFlip + nBurst,
		"rule":                fmt.Sprintf("%d fully CRC-protected bundles (all CRC-16/32 mixes, fragments, every block type, payload 0..300): every single-bit flip of the encoding; every burst = (start bit, length 2..CRC width of the covering block, interior pattern), ALL interior patterns for length <= %d and 8 structured patterns above; each corruption is distinct and non-trivial (the encoding differs from the original); accepted corruptions are judged by an independent CRC over independently delimited blocks; plus payload blocks of 4090..131100 octets (both CRC types): written CRC = reference, single-bit flips at every byte within 12 of the 4/32/64/128 KiB marks of the encoding and of the block rejected", len(specs), maxFull),
	}, []string{"bitwise CRC-16/X-25 and CRC-32C in mc/ref (check values 0x906E / 0xE3069283 asserted at start)", "bursts that move a block boundary (per the reference tokenizer) are outside the must-reject class, as the statement says"})
}

func crcTypeOfBlock(enc []byte, bi int) uint64 {
	top, err := ref.Tokenize(enc, 0, 0)
	if err != nil || bi >= len(top.Kids) {
		return 0
	}
	k := top.Kids[bi].Kids
	if bi == 0 && len(k) > 2 {
		return k[2].Val
	}
	if bi > 0 && len(k) > 3 {
		return k[3].Val
	}
	return 0
}

func replayC03(kind string, c json.RawMessage) (string, bool) {
	useVirtualClock()
	gen.RegisterAll()
	var cs c03Case
	if err := json.Unmarshal(c, &cs); err != nil {
		return err.Error(), false
	}
	enc, _ := hex.DecodeString(cs.Hex)
	if kind == "ser" {
		b, err := gen.Parse(enc)
		if err != nil {
			return "original no longer parses: " + err.Error(), true
		}
		s, _ := gen.Ser(&b)
		bad, _ := ref.CRCMismatches(s)
		return fmt.Sprint(bad), len(bad) > 0
	}
	rg, err := blockRanges(enc)
	if err != nil {
		return err.Error(), false
	}
	m := flipBurst(enc, cs.Start, cs.Len, cs.Pat)
	k, d, _ := c03Judge(enc, m, cs.Len == 1, rg, cs.Start, cs.Len)
	return k + ": " + d, k != ""
}
