package checks

import (
	"encoding/json"
	"fmt"
	"sort"
	"strings"
	"sync/atomic"

	"github.com/dtn7/dtn7-go/pkg/bpv7"
	"github.com/dtn7/dtn7-go/pkg/cla"
	"github.com/dtn7/dtn7-go/pkg/routing"
	"github.com/dtn7/dtn7-go/verif/ev"
	"github.com/dtn7/dtn7-go/verif/gen"
	"github.com/dtn7/dtn7-go/verif/ref"
	"github.com/dtn7/dtn7-go/verif/vrt"
	"github.com/dtn7/dtn7-go/verif/vsync"
)

// Schedule exploration (E3) on the node harness: the real Core.forward with its per-peer sender goroutines, and
// concurrent submissions, run as managed threads; schedule points at sync operations, store operations and the
// mock convergence senders.

type nhConcArg struct {
	Algo  string `json:"algo"`
	Mode  string `json:"mode"` // failures | submit
	Peers int    `json:"peers"`
	L     uint64 `json:"l,omitempty"`
	N     int    `json:"n,omitempty"`   // concurrent submissions
	Txn   bool   `json:"txn,omitempty"` // schedule points inside the store's transactions (codec hooks)
	// IDsOnly restricts the oracle of the submit mode to what C14 states (every bundle filed under its own ID);
	// otherwise the final record of every bundle is also compared with a sequential reference run (C05).
	IDsOnly bool `json:"ids_only,omitempty"`
	// Report (failures mode): the bundle requests a forwarding report to a remote endpoint; the oracle is that no
	// "forwarded" report exists after all transmissions failed (C15).
	Report bool `json:"report,omitempty"`
}

func init() { schedScenarios["nhconc"] = schedScenario{Setup: nhConcSetup} }

func nhConcSetup(arg json.RawMessage) (func(), func(vrt.Result) (string, string, string), func()) {
	var a nhConcArg
	_ = json.Unmarshal(arg, &a)
	useVirtualClock()
	n, err := newNhNode(nhConfig{Algo: a.Algo, SprayL: a.L})
	if err != nil {
		panic(err)
	}
	var peers []string
	for i := 1; i <= a.Peers; i++ {
		peers = append(peers, fmt.Sprintf("r%d", i))
	}
	cleanup := func() { atomic.StoreInt32(&vrt.TxnPoints, 0); n.destroy() }
	if a.Txn {
		atomic.StoreInt32(&vrt.TxnPoints, 1)
	}
	switch a.Mode {
	case "failures":
		b := gen.Spec{Dst: "dtn://dest/x", Src: "dtn://node/app", Rpt: "dtn://node/app", PCRC: 2, Time: DtnNow(), Lifetime: 3600000, PayLen: 6, PaySeed: 1}.Build()
		if a.Report {
			b = gen.Spec{Dst: "dtn://dest/x", Src: "dtn://node/app", Rpt: "dtn://collector/r", PCRC: 2, Time: DtnNow(), Lifetime: 3600000, PayLen: 6, PaySeed: 1, Flags: ref.FReqForward}.Build()
		}
		n.submit(b) // no peers yet: the bundle waits in the store
		for _, p := range peers {
			n.setOutcome(p, false)
			pp := n.peer(p)
			pp.up = true
			n.core.RegisterConvergable(pp) // connected, but no appearance event: nothing is sent yet
		}
		bid := b.ID().Scrub()
		before := n.nSends()
		body := func() { n.core.VerifForward(bid) }
		judge := func(res vrt.Result) (obs, key, desc string) {
			first := n.sendsSince(before)
			var tried []string
			for _, s := range first {
				tried = append(tried, s.Peer)
			}
			sort.Strings(tried)
			obs = "tried=" + strings.Join(tried, ",")
			if a.Report {
				// every administrative record the node holds now: none may claim that the bundle was forwarded
				if pend, perr := n.core.VerifStore().QueryPending(); perr == nil {
					for _, bi := range pend {
						if len(bi.Parts) == 0 {
							continue
						}
						sb, lerr := bi.Parts[0].Load()
						if lerr != nil {
							continue
						}
						enc, _ := gen.Ser(&sb)
						rb, derr := ref.Decode(enc)
						if derr != nil || rb.P.Flags&ref.FAdminRecord == 0 {
							continue
						}
						if rep, rerr := decodeReport(rb); rerr == nil && rep.Status == 1 {
							return obs + " forwarded-report", "forwarded-report-although-all-transmissions-failed", fmt.Sprintf("all %d transmissions failed, yet the node created a status report saying the bundle was forwarded (reason %d)", len(first), rep.Reason)
						}
					}
				}
				return obs, "", ""
			}
			si := n.storeInfo(bid)
			if !si.Known || !si.Pending {
				return obs, "bundle-not-pending-after-concurrent-failures", fmt.Sprintf("all %d transmissions failed; store: known=%v pending=%v constraints=%v", len(first), si.Known, si.Pending, si.Cons)
			}
			if copies, known := verifSprayCopies(n.core.VerifAlgorithm(), bid); known && copies != a.L {
				return obs + fmt.Sprintf(" copies=%d", copies), "copies-not-restored-after-concurrent-failures", fmt.Sprintf("all transmissions failed, the node must hold all %d copies again but holds %d", a.L, copies)
			}
			// every peer is eligible again: switch the outcomes to ok and retry
			for _, p := range peers {
				n.setOutcome(p, true)
			}
			mid := n.nSends()
			n.retryTick()
			again := map[string]bool{}
			for _, s := range n.sendsSince(mid) {
				again[s.Peer] = true
			}
			want := len(tried)
			if a.Algo == "binary_spray" {
				want = 1 // binary spray hands to one peer per round
				if len(tried) == 0 {
					want = 0
				}
			}
			if len(again) < want {
				var miss []string
				for _, p := range tried {
					if !again[p] {
						miss = append(miss, p)
					}
				}
				return obs, "failed-peer-not-offered-again-after-concurrent-failures", fmt.Sprintf("the transmissions to %v failed at the same moment; on the next retry only %d of them were offered the bundle again (missing %v): a failure report was lost", tried, len(again), miss)
			}
			obs += fmt.Sprintf(" again=%d", len(again))
			return obs, "", ""
		}
		return body, judge, cleanup
	case "vectors":
		// PRoPHET: the handler thread processes "peer appeared" (encounter, summary vector sent to the peer through the
		// store and the per-peer sender goroutines) and then a summary vector received from another peer (transitive
		// update), while the ageing job runs in the cron thread. The node's own predictability map is a tracked map:
		// a write to it while another thread iterates over it (serialisation of a metadata block that shares the map)
		// is what the Go runtime aborts the process for.
		for _, p := range peers[:len(peers)-1] {
			n.setOutcome(p, true)
			n.peerUp(p)
		}
		// a data bundle waits in the store: "peer appeared" retries it, which consults both predictability maps
		n.submit(gen.Spec{Dst: "dtn://dest/x", Src: "dtn://node/app", Rpt: "dtn://node/app", PCRC: 2, Time: DtnNow(), Lifetime: 3600000, PayLen: 6, PaySeed: 1}.Build())
		vrt.UntrackMaps()
		own, others := routing.VerifProphetLive(n.core.VerifAlgorithm())
		vrt.TrackMap(own, "Prophet.predictabilities")
		vrt.TrackMap(others, "Prophet.peerPredictabilities")
		newcomer := peers[len(peers)-1]
		n.setOutcome(newcomer, true)
		np := n.peer(newcomer)
		np.up = true
		n.core.RegisterConvergable(np)
		vec := gen.Spec{Dst: nhNodeID, Src: "dtn://r1/", Rpt: "dtn://r1/", PCRC: 2, Time: DtnNow(), Lifetime: 60000, PayLen: 1, Flags: 4, PaySeed: 3, Seq: 7,
			Ext: []gen.BSpec{{Kind: "prophet", S: []string{"dtn://dest/", "dtn://r2/"}, F: []uint64{0x3fe0000000000000, 0x3fd0000000000000}}}}.Build()
		before := n.nSends()
		body := func() {
			var wg vsync.WaitGroup
			wg.Add(1)
			vrt.Go("harness", func() { // the cron thread
				defer wg.Done()
				n.runCron("dtlsr_recompute") // the name PRoPHET registers its ageing job under
			})
			n.core.VerifHandle(cla.NewConvergencePeerAppeared(np, np.GetPeerEndpointID()))
			n.core.VerifHandle(cla.NewConvergenceReceivedBundle(n.peer("r1"), gen.MustEID(nhNodeID), &vec))
			wg.Wait()
		}
		judge := func(res vrt.Result) (obs, key, desc string) {
			vrt.UntrackMaps()
			got := 0
			for _, sd := range n.sendsSince(before) {
				if sd.Peer == newcomer {
					got++
				}
			}
			obs = fmt.Sprintf("vectors-to-newcomer=%d", got)
			if len(res.Faults) > 0 {
				return obs + " fault", "concurrent-map-access", "the Go runtime aborts the process when these overlap: " + res.Faults[0]
			}
			if got == 0 {
				return obs, "no-summary-vector-for-new-peer", "a peer appeared but no metadata bundle was handed to it"
			}
			return obs, "", ""
		}
		return body, judge, func() { vrt.UntrackMaps(); cleanup() }
	case "hops":
		// a received bundle with a hop-count block waits in the store; it is then handed to several relays at once.
		// Whatever the order in which the sender threads run and finish, every relay gets hop count received+1.
		in := gen.Spec{Dst: "dtn://dest/x", Src: "dtn://far/app", Rpt: "dtn://far/app", PCRC: 2, Time: DtnNow() - 1000, Lifetime: 3600000, PayLen: 6, PaySeed: 2,
			Ext: []gen.BSpec{{Kind: "hop", N: []uint64{16, 3}}}}.Build()
		n.receive(in, "r0")
		for _, p := range peers {
			n.setOutcome(p, true)
			pp := n.peer(p)
			pp.up = true
			n.core.RegisterConvergable(pp)
		}
		bid := in.ID().Scrub()
		before := n.nSends()
		body := func() { n.core.VerifForward(bid) }
		judge := func(res vrt.Result) (obs, key, desc string) {
			var seen []string
			for _, sd := range n.sendsSince(before) {
				rb, derr := ref.Decode(sd.Enc)
				if derr != nil {
					return "", "transmitted-bytes-undecodable", derr.Error()
				}
				hb := rb.Find(ref.THopCount)
				if hb == nil {
					return "", "hop-count-block-missing", "the transmitted bundle lacks the hop-count block it was received with"
				}
				it, terr := ref.Tokenize(hb.Data, 0, 0)
				if terr != nil || len(it.Kids) != 2 {
					return "", "hop-count-block-malformed", fmt.Sprint(terr)
				}
				seen = append(seen, fmt.Sprintf("%s:%d/%d", sd.Peer, it.Kids[1].Val, it.Kids[0].Val))
				if it.Kids[1].Val != 4 || it.Kids[0].Val != 16 {
					return strings.Join(seen, " "), "hop-count-wrong-for-a-concurrent-sender", fmt.Sprintf("the bundle was received with hop count 3 of 16 and handed to %d relays at once; relay %s got %d of %d instead of 4 of 16", len(peers), sd.Peer, it.Kids[1].Val, it.Kids[0].Val)
				}
			}
			sort.Strings(seen)
			if len(seen) != len(peers) {
				return strings.Join(seen, " "), "relay-not-served", fmt.Sprintf("%d of %d relays were handed the bundle", len(seen), len(peers))
			}
			return strings.Join(seen, " "), "", ""
		}
		return body, judge, cleanup
	case "forwardrule":
		// PRoPHET: a retry of a waiting data bundle (sender selection over the connected relay r1) runs while the
		// destination is encountered (own value 0 -> PInit) and r1's summary vector arrives (r1's value 0 -> 0.5).
		// In no order of these events is r1's advertised value strictly greater than the node's own, so the bundle
		// must not be offered to r1 in any schedule.
		n.setOutcome("r1", true)
		n.peerUp("r1")
		data := gen.Spec{Dst: "dtn://dest/", Src: "dtn://node/app", Rpt: "dtn://node/app", PCRC: 2, Time: DtnNow(), Lifetime: 3600000, PayLen: 6, PaySeed: 1}.Build()
		n.submit(data)
		p := routing.VerifProphetOf(n.core.VerifAlgorithm())
		vec := gen.Spec{Dst: nhNodeID, Src: "dtn://r1/", Rpt: "dtn://r1/", PCRC: 2, Time: DtnNow(), Lifetime: 60000, PayLen: 1, Flags: 4, PaySeed: 3, Seq: 9,
			Ext: []gen.BSpec{{Kind: "prophet", S: []string{"dtn://dest/"}, F: []uint64{0x3fe0000000000000}}}}.Build()
		before := n.nSends()
		body := func() {
			var wg vsync.WaitGroup
			wg.Add(1)
			vrt.Go("harness", func() {
				defer wg.Done()
				p.VerifEncounter(gen.MustEID("dtn://dest/"))
				n.core.VerifHandle(cla.NewConvergenceReceivedBundle(n.peer("r1"), gen.MustEID(nhNodeID), &vec))
			})
			n.core.VerifRetryTick()
			wg.Wait()
		}
		judge := func(res vrt.Result) (obs, key, desc string) {
			offered := 0
			for _, sd := range n.sendsSince(before) {
				if sd.Peer == "r1" && idOfSend(sd) == data.ID().Scrub().String() {
					offered++
				}
			}
			own, _, _ := routing.VerifProphet(n.core.VerifAlgorithm())
			obs = fmt.Sprintf("offered=%d own=%v", offered, own[gen.MustEID("dtn://dest/")])
			if offered > 0 {
				return obs, "offered-to-peer-without-greater-predictability", "the data bundle was offered to r1 although r1's advertised predictability for the destination (0 before its vector, 0.5 after) was at no time strictly greater than the node's own (0 before the encounter, 0.75 after): the two values compared were not read at one instant"
			}
			return obs, "", ""
		}
		return body, judge, cleanup
	case "submit":
		var bs []bpv7.Bundle
		for i := 0; i < a.N; i++ {
			bs = append(bs, gen.Spec{Dst: "dtn://dest/x", Src: "dtn://node/app", Rpt: "dtn://node/app", PCRC: 2, Time: DtnNow(), Lifetime: 3600000, PayLen: 6, PaySeed: byte(10 * (i + 1))}.Build())
		}
		// differential reference: the same submissions one after the other on a second node
		refState := map[string]string{}
		{
			rn, rerr := newNhNode(nhConfig{Algo: a.Algo, SprayL: a.L})
			if rerr != nil {
				panic(rerr)
			}
			for i := range bs {
				rn.submit(bs[i])
			}
			pend, _ := rn.core.VerifStore().QueryPending()
			for _, bi := range pend {
				if len(bi.Parts) == 0 {
					continue
				}
				if b, lerr := bi.Parts[0].Load(); lerr == nil {
					si := rn.storeInfo(b.ID().Scrub())
					refState[fmt.Sprintf("%x", payloadOf(&b))] = fmt.Sprintf("pending=%v constraints=%v", si.Pending, si.Cons)
				}
			}
			rn.destroy()
		}
		body := func() {
			var wg vsync.WaitGroup
			wg.Add(len(bs))
			for i := range bs {
				i := i
				vrt.Go("harness", func() {
					defer wg.Done()
					n.submit(bs[i])
				})
			}
			wg.Wait()
		}
		judge := func(res vrt.Result) (obs, key, desc string) {
			pending, err := n.core.VerifStore().QueryPending()
			if err != nil {
				return "", "query-pending-failed", err.Error()
			}
			seen := map[string]string{}
			var ids []string
			for _, bi := range pending {
				if len(bi.Parts) == 0 {
					continue
				}
				b, lerr := bi.Parts[0].Load()
				if lerr != nil {
					return "", "stored-bundle-unreadable", lerr.Error()
				}
				pl := fmt.Sprintf("%x", payloadOf(&b))
				if b.ID().Scrub().String() != bi.Id {
					return "", "store-key-differs-from-bundle-id", fmt.Sprintf("key %s holds bundle %s", bi.Id, b.ID())
				}
				seen[pl] = bi.Id
				ids = append(ids, bi.Id)
				si := n.storeInfo(b.ID().Scrub())
				if got := fmt.Sprintf("pending=%v constraints=%v", si.Pending, si.Cons); !a.IDsOnly && got != refState[pl] {
					return strings.Join(ids, " ") + " state-differs", "concurrently-submitted-bundle-state-differs", fmt.Sprintf("%d bundles were submitted concurrently; the record of %s ends as {%s}, after the same submissions one after the other it is {%s}: a store update was lost", len(bs), bi.Id, got, refState[pl])
				}
			}
			sort.Strings(ids)
			obs = strings.Join(ids, " ")
			for i := range bs {
				pl := fmt.Sprintf("%x", gen.Payload(6, byte(10*(i+1))))
				if _, ok := seen[pl]; !ok {
					return obs, "concurrently-submitted-bundle-lost", fmt.Sprintf("%d bundles with identical source and creation time were submitted concurrently; the store holds %d records %v, bundle %d is missing", len(bs), len(seen), ids, i)
				}
			}
			return obs, "", ""
		}
		return body, judge, cleanup
	}
	panic("unknown mode")
}

// nhSchedRun explores one concurrent scenario and reports into the run.
func nhSchedRun(r *ev.Run, prop string, a nhConcArg, bound, budget int) int {
	sum := exploreSchedules("nhconc", a, bound, budget)
	r.Add("sched_executions", int64(sum.Execs))
	r.Add("sched_distinct_outcomes", int64(len(sum.Outcomes)))
	if sum.Capped {
		r.Capped(fmt.Sprintf("schedule exploration %+v with preemption bound %d stopped at the execution budget %d", a, bound, budget))
	}
	if sum.Diverged > 0 {
		r.Note(fmt.Sprintf("HARNESS: %d schedule prefixes of %+v could not be replayed", sum.Diverged, a))
	}
	for _, v := range sum.Viol {
		r.Violation(prop+"/concurrent:"+v.Key+":"+a.Algo, "sched", v.Desc, schedTask{Scenario: "nhconc", Arg: mustJSON(a), Prefix: v.Prefix, Single: true})
	}
	r.Sample(map[string]interface{}{"scenario": a, "preemption_bound": bound, "executions": sum.Execs, "outcomes": sum.Outcomes})
	return sum.Execs
}

var _ = ref.TPayload
