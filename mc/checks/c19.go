package checks

import (
	"encoding/json"
	"fmt"
	"math"
	"sync"
	"time"

	"github.com/dtn7/dtn7-go/pkg/bpv7"
	"github.com/dtn7/dtn7-go/pkg/routing"
	"github.com/dtn7/dtn7-go/verif/ev"
	"github.com/dtn7/dtn7-go/verif/gen"
)

func init() {
	All["C19"] = Check{Level: "model_checking", Run: runC19, Replay: replayC19}
	workers["c19"] = c19Worker
	nhChecks["c19fwd"] = c19FwdDef
}

// value alphabet: 0, smallest denormal, smallest normal, 0.25, 0.5, 0.75, largest below 1, 1
var c19Vals = []float64{0, 5e-324, 2.2250738585072014e-308, 0.25, 0.5, 0.75, 1 - 1.0/(1<<53), 1}

type c19Cfg struct {
	PInit, Beta, Gamma float64
}

type c19Event struct {
	Op   string  `json:"op"` // enc age vec
	P    int     `json:"p"`  // peer index 0/1
	X, Y float64 `json:"x"`  // vec: predictability for D and for the other peer
}

func (e c19Event) String() string {
	switch e.Op {
	case "enc":
		return fmt.Sprintf("encounter(P%d)", e.P+1)
	case "age":
		return "age"
	}
	return fmt.Sprintf("vector(P%d: D=%g, other=%g)", e.P+1, e.X, e.Y)
}

type c19Task struct {
	Cfg    c19Cfg `json:"cfg"`
	Depth  int    `json:"depth"`
	Vals   []int  `json:"vals"` // indices into c19Vals used for vector values
	Orbits int    `json:"orbits"`
	// MaxTrans bounds the transitions of the numeric BFS of this task (0 = none)
	MaxTrans int `json:"max_trans,omitempty"`
}

type c19Out struct {
	States      int         `json:"states"`
	Transitions int         `json:"transitions"`
	OrbitSteps  int         `json:"orbit_steps"`
	Viol        []schedViol `json:"viol,omitempty"`
	Sample      string      `json:"sample"`
	Capped      string      `json:"capped,omitempty"`
}

var c19Peers = []string{"dtn://p1/", "dtn://p2/", "dtn://d/"}

func c19Apply(p *routing.Prophet, e c19Event) {
	switch e.Op {
	case "enc":
		p.VerifEncounter(gen.MustEID(c19Peers[e.P]))
	case "age":
		p.VerifAge()
	case "vec":
		other := c19Peers[1-e.P]
		m := map[bpv7.EndpointID]float64{gen.MustEID(c19Peers[2]): e.X, gen.MustEID(other): e.Y}
		b, err := bpv7.Builder().Source(c19Peers[e.P]).Destination(nhNodeID).CreationTimestampNow().Lifetime("1m").
			BundleCtrlFlags(bpv7.MustNotFragmented).PayloadBlock(byte(1)).Canonical(bpv7.NewProphetBlock(m)).Build()
		if err != nil {
			panic(err)
		}
		p.VerifVector(b)
	}
}

func c19State(p *routing.Prophet) [3]uint64 {
	own := p.VerifOwn()
	var st [3]uint64
	for i, n := range c19Peers {
		st[i] = math.Float64bits(own[gen.MustEID(n)])
	}
	return st
}

// c19Judge compares the state before and after one event.
func c19Judge(before, after [3]uint64, e c19Event) (string, string) {
	for i := range after {
		a, b := math.Float64frombits(after[i]), math.Float64frombits(before[i])
		if math.IsNaN(a) || a < 0 || a > 1 {
			return "predictability-out-of-range", fmt.Sprintf("P(%s) = %v after %v (was %v)", c19Peers[i], a, e, b)
		}
		switch e.Op {
		case "enc":
			if a < b {
				return "encounter-lowered-a-value", fmt.Sprintf("P(%s): %v -> %v by %v", c19Peers[i], b, a, e)
			}
		case "age":
			if a > b {
				return "ageing-raised-a-value", fmt.Sprintf("P(%s): %v -> %v by %v", c19Peers[i], b, a, e)
			}
		case "vec":
			if a < b {
				return "transitive-update-lowered-a-value", fmt.Sprintf("P(%s): %v -> %v by %v", c19Peers[i], b, a, e)
			}
		}
	}
	return "", ""
}

func c19Worker(task []byte) []byte {
	var t c19Task
	var out c19Out
	_ = json.Unmarshal(task, &t)
	useVirtualClock()
	n, err := newNhNode(nhConfig{Algo: "prophet"})
	if err != nil {
		out.Viol = append(out.Viol, schedViol{Key: "harness-open", Desc: err.Error()})
		return mustJSON(out)
	}
	defer n.destroy()
	cfg := routing.ProphetConfig{PInit: t.Cfg.PInit, Beta: t.Cfg.Beta, Gamma: t.Cfg.Gamma, AgeInterval: "1m"}
	var alpha []c19Event
	alpha = append(alpha, c19Event{Op: "enc", P: 0}, c19Event{Op: "enc", P: 1}, c19Event{Op: "age"})
	for p := 0; p < 2; p++ {
		for _, xi := range t.Vals {
			for _, yi := range t.Vals {
				alpha = append(alpha, c19Event{Op: "vec", P: p, X: c19Vals[xi], Y: c19Vals[yi]})
			}
		}
	}
	// replay builds a fresh PRoPHET instance and applies the history
	replay := func(h []c19Event) *routing.Prophet {
		p := routing.VerifNewProphet(n.core, cfg)
		for _, e := range h {
			c19Apply(p, e)
		}
		return p
	}
	type node struct{ h []c19Event }
	seen := map[[3]uint64]bool{{0, 0, 0}: true}
	frontier := []node{{}}
	started := time.Now()
bfs:
	for d := 0; d < t.Depth && len(frontier) > 0; d++ {
		var next []node
		for _, nd := range frontier {
			// a task stays well below the worker watchdog: bounded by transitions and by real time
			if (t.MaxTrans > 0 && out.Transitions >= t.MaxTrans) || time.Since(started) > 150*time.Second {
				out.Capped = fmt.Sprintf("constants %+v: numeric BFS stopped in level %d after %d transitions (%d states); levels below are complete", t.Cfg, d+1, out.Transitions, len(seen))
				break bfs
			}
			for _, e := range alpha {
				p := replay(nd.h)
				before := c19State(p)
				c19Apply(p, e)
				after := c19State(p)
				out.Transitions++
				if k, dsc := c19Judge(before, after, e); k != "" && len(out.Viol) < 10 {
					out.Viol = append(out.Viol, schedViol{Key: k, Desc: fmt.Sprintf("constants %+v, after %v: %s", t.Cfg, append(append([]c19Event(nil), nd.h...), e), dsc)})
				}
				if !seen[after] {
					seen[after] = true
					next = append(next, node{append(append([]c19Event(nil), nd.h...), e)})
				}
			}
		}
		frontier = next
	}
	out.States = len(seen)
	// orbits: periodic event words iterated for thousands of steps on one instance
	words := [][]c19Event{
		{{Op: "enc", P: 0}}, {{Op: "age"}}, {{Op: "enc", P: 0}, {Op: "age"}}, {{Op: "enc", P: 0}, {Op: "enc", P: 1}, {Op: "age"}, {Op: "age"}},
		{{Op: "vec", P: 0, X: 1, Y: 1}}, {{Op: "enc", P: 0}, {Op: "vec", P: 0, X: 1, Y: 1}}, {{Op: "enc", P: 0}, {Op: "vec", P: 0, X: 1 - 1.0/(1<<53), Y: 0.75}, {Op: "age"}},
		{{Op: "enc", P: 0}, {Op: "vec", P: 0, X: 0.75, Y: 1}, {Op: "enc", P: 1}, {Op: "vec", P: 1, X: 1, Y: 0.5}}, {{Op: "vec", P: 1, X: 5e-324, Y: 1}, {Op: "enc", P: 1}},
		{{Op: "enc", P: 0}, {Op: "age"}, {Op: "age"}, {Op: "age"}}, {{Op: "enc", P: 1}, {Op: "vec", P: 1, X: 1, Y: 1}, {Op: "vec", P: 0, X: 1, Y: 1}, {Op: "enc", P: 0}},
	}
	for wi := 0; wi < len(words) && wi < t.Orbits; wi++ {
		p := routing.VerifNewProphet(n.core, cfg)
		visited := map[[3]uint64]bool{}
		for step := 0; step < 10000; step++ {
			e := words[wi][step%len(words[wi])]
			before := c19State(p)
			c19Apply(p, e)
			after := c19State(p)
			out.OrbitSteps++
			if k, dsc := c19Judge(before, after, e); k != "" {
				if len(out.Viol) < 10 {
					out.Viol = append(out.Viol, schedViol{Key: k + ":orbit", Desc: fmt.Sprintf("constants %+v, word %v, step %d: %s", t.Cfg, words[wi], step, dsc)})
				}
				break
			}
			if step%len(words[wi]) == len(words[wi])-1 {
				if visited[after] {
					break // the orbit closed
				}
				visited[after] = true
			}
		}
	}
	out.Sample = fmt.Sprintf("%+v depth %d alphabet %d", t.Cfg, t.Depth, len(alpha))
	return mustJSON(out)
}

// ---- forwarding rule on the node harness ----

func c19FwdDef() nhCheckDef {
	data := gen.Spec{Dst: "dtn://dest/x", Src: "dtn://node/app", Rpt: "dtn://node/app", PCRC: 2, Lifetime: 3600000, PayLen: 5, PaySeed: 1}
	var bs []nhBundle
	bs = append(bs, nhBundle{Spec: data, Local: true, Dest: "dest"})
	// summary vectors of r1 / r2 advertising P(dest) in {0.25, 0.5, 0.75}
	for _, p := range []string{"r1", "r2"} {
		for _, bits := range []uint64{0x3fd0000000000000, 0x3fe0000000000000, 0x3fe8000000000000} {
			mv := gen.Spec{Dst: nhNodeID, Src: "dtn://" + p + "/", Rpt: "dtn://" + p + "/", PCRC: 2, Lifetime: 60000, PayLen: 1, Flags: 4, PaySeed: byte(len(bs)), Seq: uint64(len(bs)),
				Ext: []gen.BSpec{{Kind: "prophet", S: []string{"dtn://dest/x"}, F: []uint64{bits}}}}
			bs = append(bs, nhBundle{Spec: mv, Dest: "node"})
		}
	}
	foreign := data
	foreign.Src, foreign.Rpt = "dtn://far/app", "dtn://far/app"
	foreign.PaySeed = 9
	bs = append(bs, nhBundle{Spec: foreign, Dest: "dest"})
	// later summary vectors of r1 / r2 that no longer mention the destination
	for _, p := range []string{"r1", "r2"} {
		mv := gen.Spec{Dst: nhNodeID, Src: "dtn://" + p + "/", Rpt: "dtn://" + p + "/", PCRC: 2, Lifetime: 60000, PayLen: 1, Flags: 4, PaySeed: byte(len(bs)), Seq: uint64(len(bs)),
			Ext: []gen.BSpec{{Kind: "prophet", S: []string{"dtn://elsewhere/"}, F: []uint64{0x3feccccccccccccd}}}}
		bs = append(bs, nhBundle{Spec: mv, Dest: "node"})
	}
	return nhCheckDef{Scenarios: []nhScenario{{Cfg: nhConfig{Algo: "prophet", PInit: 0.5, Beta: 0.25, Gamma: 0.98}, Bundles: bs}}, Oracle: c19FwdOracle}
}

// c19FwdOracle: a data bundle is offered (apart from direct delivery) only to peers whose advertised
// predictability for the destination is strictly greater than the node's own.
func c19FwdOracle(r *nhRun) (string, string) {
	last := r.steps[len(r.steps)-1]
	own, _, ok := routing.VerifProphet(r.n.core.VerifAlgorithm())
	if !ok {
		return "harness-not-prophet", ""
	}
	dst := gen.MustEID("dtn://dest/x")
	// reference: the latest summary vector received from each peer (a new vector replaces the old one)
	peers := map[bpv7.EndpointID]map[bpv7.EndpointID]float64{}
	for _, st := range r.steps {
		if st.Event.Op == "restart" {
			peers = map[bpv7.EndpointID]map[bpv7.EndpointID]float64{}
		}
		if st.Event.Op != "receive" {
			continue
		}
		sp := r.sc.Bundles[st.Event.B].Spec
		for _, x := range sp.Ext {
			if x.Kind == "prophet" {
				m := map[bpv7.EndpointID]float64{}
				for k, e := range x.S {
					m[gen.MustEID(e)] = math.Float64frombits(x.F[k])
				}
				peers[gen.MustEID(sp.Src)] = m
			}
		}
	}
	for _, s := range last.Sends {
		for _, i := range []int{0, 7} {
			t := r.tr[i]
			if !t.Accepted || idOfSend(s) != r.idString(i) || s.Peer == "dest" {
				continue
			}
			pp := peers[gen.MustEID("dtn://"+s.Peer+"/")][dst]
			if !(pp > own[dst]) {
				rel := "equal to"
				if pp < own[dst] {
					rel = "lower than"
				}
				if _, known := peers[gen.MustEID("dtn://"+s.Peer+"/")]; !known {
					rel = "unknown, not above"
				}
				return "offered-to-peer-without-greater-predictability", fmt.Sprintf("b%d was offered to %s whose advertised predictability for the destination (%v) is %s the node's own (%v)", i, s.Peer, pp, rel, own[dst])
			}
		}
	}
	return "", ""
}

func runC19(r *ev.Run, thorough bool) int {
	cfgs := []c19Cfg{{0.75, 0.25, 0.98}, {1, 1, 1}, {0, 0, 0}, {0.5, 1, 0.5}, {1 - 1.0/(1<<53), 1, 5e-324}, {5e-324, 1, 1}, {1, 0.5, 2.2250738585072014e-308}, {0.25, 0.75, 1 - 1.0/(1<<53)}}
	depth, vals := 3, []int{0, 1, 4, 6, 7}
	if thorough {
		depth, vals = 4, []int{0, 1, 2, 3, 4, 5, 6, 7}
	}
	var tasks [][]byte
	for _, c := range cfgs {
		tasks = append(tasks, mustJSON(c19Task{Cfg: c, Depth: depth, Vals: vals, Orbits: 11, MaxTrans: 400000}))
	}
	var mu sync.Mutex
	states, trans, orbit := 0, 0, 0
	runPool("c19", 0, tasks, func(i int, pr poolResult) {
		mu.Lock()
		defer mu.Unlock()
		if pr.Crashed {
			r.Violation("C19/crashed", "task", "process died: "+lastLines(pr.Stderr, 12), cfgs[i])
			return
		}
		var o c19Out
		_ = json.Unmarshal(pr.Res, &o)
		if o.Capped != "" {
			r.Capped(o.Capped)
		}
		states += o.States
		trans += o.Transitions
		orbit += o.OrbitSteps
		for _, v := range o.Viol {
			r.Violation("C19/"+v.Key, "task", v.Desc, cfgs[i])
		}
		r.Sample(map[string]interface{}{"numeric_exploration": o.Sample, "states": o.States, "transitions": o.Transitions})
	})
	r.Add("numeric_states", int64(states))
	r.Add("numeric_transitions", int64(trans))
	r.Add("orbit_steps", int64(orbit))
	// forwarding rule
	alpha := []nhEvent{{Op: "submit", B: 0}, {Op: "receive", B: 7, P: "r2", Q: "r2"}, {Op: "up", P: "dest"}, {Op: "down", P: "dest"}, {Op: "up", P: "r1"}, {Op: "up", P: "r2"}, {Op: "down", P: "r1"}, {Op: "retry"}, {Op: "fail", P: "r1"}, {Op: "ok", P: "r1"}}
	for b := 1; b <= 6; b++ {
		p := "r1"
		if b > 3 {
			p = "r2"
		}
		alpha = append(alpha, nhEvent{Op: "receive", B: b, P: p})
	}
	alpha = append(alpha, nhEvent{Op: "receive", B: 8, P: "r1"}, nhEvent{Op: "receive", B: 9, P: "r2"})
	var st nhBFSStats
	fdepth, budget := 4, 6000
	if thorough {
		fdepth, budget = 6, 200000
	}
	nhExplore(r, "C19", "c19fwd", 0, nil, alpha, fdepth, budget, &st)
	nhExplore(r, "C19", "c19fwd", 0, []nhEvent{{Op: "up", P: "dest"}, {Op: "down", P: "dest"}, {Op: "up", P: "r1"}, {Op: "up", P: "r2"}}, alpha, fdepth-1, budget, &st)
	r.Add("forwarding_transitions", int64(st.Transitions))
	r.Add("forwarding_sends_observed", int64(st.SendsSeen))
	// concurrent peer-appeared / vector-received / ageing (E3, tracked own-predictability map)
	sbound, sbudget := 2, 2000
	if thorough {
		sbound, sbudget = 3, 200000
	}
	sexecs := nhSchedRun(r, "C19", nhConcArg{Algo: "prophet", Mode: "vectors", Peers: 3}, sbound, sbudget)
	// the forwarding rule under concurrency: sender selection racing with an encounter and a received vector
	sexecs += nhSchedRun(r, "C19", nhConcArg{Algo: "prophet", Mode: "forwardrule", Peers: 1}, sbound, sbudget)
	if trans == 0 || st.SendsSeen == 0 {
		r.Violation("C19/vacuous", "none", "nothing explored", nil)
	}
	return r.Finish(map[string]interface{}{
		"states":                        states + st.States,
		"transitions":                   trans + st.Transitions + orbit,
		"schedules":                     sexecs,
		"traces_validated_against_impl": trans + st.Validated + orbit + sexecs,
		"evaluations":                   trans + st.Transitions + orbit + sexecs,
		"distinct_nontrivial":           states + st.Outcomes,
		"rule":                          fmt.Sprintf("(a) for 8 constant triples (incl. 0, 1, denormals, 1-2^-53): BFS to depth %d over {encounter P1/P2, ageing task, summary vector from P1/P2 with predictabilities from %d boundary values squared} executed by the real PRoPHET code (state = exact float bits of the own vector, successor = fresh instance + replay), every value in [0,1], encounter/transitivity never lower, ageing never raises; plus 11 periodic event words iterated until the state repeats or 10000 steps; (b) BFS over a live node with relays advertising predictabilities 0.25/0.5/0.75 for the destination, own value 0 or PInit=0.5 (after meeting the destination): a data bundle is offered to a relay only if its advertised value is strictly greater than the own one; (c) all schedules with at most %d preemptions of {handler thread: peer appeared (encounter, summary vector through store and per-peer sender threads), then summary vector received (transitive update); cron thread: ageing job} on a node with two connected peers, the own predictability map tracked: no thread writes the map while another iterates over it (the condition the Go runtime aborts the process for), no deadlock, no panic, the new peer gets its vector", depth, len(vals), sbound),
	}, []string{"the encounter/ageing/vector seams call the algorithm's own unexported code through one-line bridges", "the concurrent-map abort is modelled as 'write while another thread has an open iteration' at the instrumented range/assignment statements of package routing and the metadata block serialisers; overlapping plain reads and writes without a schedule point between them are not modelled"})
}

func replayC19(kind string, c json.RawMessage) (string, bool) {
	if kind == "history" || kind == "sched" {
		return nhReplayAny(kind, c)
	}
	return "numeric cases are enumerated deterministically: re-run the check", false
}
