package checks

import (
	"encoding/json"
	"fmt"
	"sort"
	"sync"
	"time"

	"github.com/dtn7/dtn7-go/pkg/bpv7"
	"github.com/dtn7/dtn7-go/pkg/routing"
	"github.com/dtn7/dtn7-go/verif/ev"
	"github.com/dtn7/dtn7-go/verif/gen"
	"github.com/dtn7/dtn7-go/verif/vrt"
	"github.com/dtn7/dtn7-go/verif/vsync"
	"github.com/dtn7/dtn7-go/verif/vtime"
)

func init() {
	All["C20"] = Check{Level: "model_checking", Run: runC20, Replay: replayC20}
	workers["c20"] = c20Worker
	nhChecks["c20fwd"] = c20FwdDef
}

// arc states: 0 absent, 1 live, 2 lost 10 s ago, 3 lost 3 s ago
type c20Graph struct {
	N      int     `json:"n"`                // number of nodes (node 0 = this node)
	Arcs   []int   `json:"arcs"`             // N*N matrix, row-major, diagonal ignored
	Loss   []int64 `json:"loss,omitempty"`   // optional N*N: for lost arcs, how many ms ago (overrides the state table)
	Report []int64 `json:"report,omitempty"` // optional per node: how many ms ago its link state was issued (default 1)
	Pre    bool    `json:"pre,omitempty"`    // history: every announcing node first announced live links to ALL nodes, and a table was computed from that
}

func (g c20Graph) lossAgo(i, j int) int64 {
	if len(g.Loss) > 0 && g.Loss[i*g.N+j] > 0 {
		return g.Loss[i*g.N+j]
	}
	return c20LossAgo[g.Arcs[i*g.N+j]]
}

type c20Task struct {
	Graphs []c20Graph `json:"graphs"`
	Orders [][]int    `json:"orders,omitempty"` // update-order cases (part b): permutations of update indices
}

type c20Out struct {
	Viol     []schedViol `json:"viol,omitempty"`
	Entries  int         `json:"entries"`
	Graphs   int         `json:"graphs"`
	Sigs     int         `json:"sigs"`
	OrderChk int         `json:"order_checks"`
}

func c20Name(i int) string {
	if i == 0 {
		return nhNodeID
	}
	return fmt.Sprintf("dtn://n%d/", i)
}

const c20Inf = int64(1) << 60

var c20LossAgo = map[int]int64{2: 10000, 3: 3000}

// c20Reference computes all-pairs shortest paths (Floyd-Warshall) on the graph at time now.
func c20Reference(g c20Graph) [][]int64 {
	n := g.N
	d := make([][]int64, n)
	for i := range d {
		d[i] = make([]int64, n)
		for j := range d[i] {
			switch {
			case i == j:
				d[i][j] = 0
			case g.Arcs[i*n+j] == 5:
				d[i][j] = c20Inf // an own link lost longer ago than the purge time: forgotten by the purge task
			case g.Arcs[i*n+j] == 1 || g.Arcs[i*n+j] == 4:
				d[i][j] = 0 // 4: an own link that was lost 20 s ago and came back 5 s ago - live again
			case g.Arcs[i*n+j] >= 2:
				d[i][j] = g.lossAgo(i, j)
			default:
				d[i][j] = c20Inf
			}
		}
	}
	for k := 0; k < n; k++ {
		for i := 0; i < n; i++ {
			for j := 0; j < n; j++ {
				if d[i][k]+d[k][j] < d[i][j] {
					d[i][j] = d[i][k] + d[k][j]
				}
			}
		}
	}
	return d
}

func c20LinkStateBundle(from int, ts bpv7.DtnTime, peers map[bpv7.EndpointID]bpv7.DtnTime, seq uint64) bpv7.Bundle {
	blk := bpv7.NewDTLSRBlock(bpv7.DTLSRPeerData{ID: gen.MustEID(c20Name(from)), Timestamp: ts, Peers: peers})
	b, err := bpv7.Builder().Source(c20Name(from)).Destination("dtn://routing/dtlsr/broadcast/").CreationTimestampNow().Lifetime("1m").
		BundleCtrlFlags(bpv7.MustNotFragmented).PayloadBlock(byte(1)).Canonical(blk).Build()
	if err != nil {
		panic(err)
	}
	b.PrimaryBlock.CreationTimestamp[1] = seq
	return b
}

func c20RunGraph(n *nhNode, g c20Graph) (key, desc string, entries int) {
	defer func() {
		if r := recover(); r != nil {
			key, desc = "panic", fmt.Sprint(r)
		}
	}()
	vtime.SetVirtual(VNow)
	d := routing.VerifNewDTLSR(n.core, routing.DTLSRConfig{RecomputeTime: "30s", BroadcastTime: "30s", PurgeTime: "10m"})
	T := VNow.Add(720 * time.Second) // late enough for a loss 11 minutes before T to lie after the start
	ago := func(ms int64) time.Time { return T.Add(-time.Duration(ms) * time.Millisecond) }
	// own links: appear at the start, disappear at their loss instants (in chronological order)
	for j := 1; j < g.N; j++ {
		if g.Arcs[j] != 0 {
			d.ReportPeerAppeared(n.peer(fmt.Sprintf("n%d", j)))
		}
	}
	type ownLoss struct {
		j  int
		at int64
	}
	var ol []ownLoss
	for j := 1; j < g.N; j++ {
		if g.Arcs[j] == 4 {
			ol = append(ol, ownLoss{j, 20000})
		} else if g.Arcs[j] == 5 {
			ol = append(ol, ownLoss{j, 11 * 60 * 1000})
		} else if g.Arcs[j] >= 2 {
			ol = append(ol, ownLoss{j, g.lossAgo(0, j)})
		}
	}
	sort.Slice(ol, func(a, b int) bool { return ol[a].at > ol[b].at })
	for _, l := range ol {
		vtime.Set(ago(l.at))
		d.ReportPeerDisappeared(n.peer(fmt.Sprintf("n%d", l.j)))
	}
	// returning neighbours: the link is live again since 5 s (after every loss instant used above except the 3 s one)
	for j := 1; j < g.N; j++ {
		if g.Arcs[j] == 4 {
			vtime.Set(ago(5000))
			d.ReportPeerAppeared(n.peer(fmt.Sprintf("n%d", j)))
		}
	}
	vtime.Set(T)
	if g.Pre {
		// an earlier epoch of the network: every node that announces anything in g had live links to all other nodes;
		// a routing table is computed from that, then the announcements of g (newer) replace the data. The final
		// table must be the one of g alone - nothing of the earlier table may survive (differential oracle: the same
		// reference as for the fresh instance).
		for i := 1; i < g.N; i++ {
			rep, any := int64(1), false
			if len(g.Report) > i && g.Report[i] > 0 {
				rep = g.Report[i]
			}
			peers := map[bpv7.EndpointID]bpv7.DtnTime{}
			for j := 0; j < g.N; j++ {
				if i != j {
					peers[gen.MustEID(c20Name(j))] = 0
					any = any || g.Arcs[i*g.N+j] != 0
				}
			}
			if any {
				d.VerifLinkState(c20LinkStateBundle(i, bpv7.DtnTimeFromTime(ago(rep))-5000, peers, uint64(200+i)))
			}
		}
		d.VerifPurge()
		d.VerifRecompute()
	}
	// link-state data of the other nodes: first an older announcement naming only one of the links (if there
	// are several), then the complete, newer one - so that replacement of stored data is exercised as well
	for i := 1; i < g.N; i++ {
		rep := int64(1)
		if len(g.Report) > i && g.Report[i] > 0 {
			rep = g.Report[i]
		}
		peers := map[bpv7.EndpointID]bpv7.DtnTime{}
		var first bpv7.EndpointID
		for j := g.N - 1; j >= 0; j-- {
			if i == j || g.Arcs[i*g.N+j] == 0 {
				continue
			}
			first = gen.MustEID(c20Name(j))
			if g.Arcs[i*g.N+j] == 1 {
				peers[first] = 0
			} else {
				peers[first] = bpv7.DtnTimeFromTime(ago(g.lossAgo(i, j)))
			}
		}
		if len(peers) == 0 {
			continue // a node without links has nothing to announce
		}
		issued := bpv7.DtnTimeFromTime(ago(rep))
		if len(peers) > 1 {
			d.VerifLinkState(c20LinkStateBundle(i, issued-1000, map[bpv7.EndpointID]bpv7.DtnTime{first: peers[first]}, uint64(100+i)))
		}
		d.VerifLinkState(c20LinkStateBundle(i, issued, peers, uint64(i)))
	}
	// the purge task runs before the recomputation: it forgets own links lost longer ago than the purge time (10 min)
	// and nothing else
	d.VerifPurge()
	d.VerifRecompute()
	table := d.VerifTable()
	ref := c20Reference(g)
	for j := 1; j < g.N; j++ {
		dest := gen.MustEID(c20Name(j))
		nh, has := table[dest]
		reach := ref[0][j] < c20Inf
		// nodes the implementation never heard of cannot be in its table; every node with an arc is known
		if has != reach {
			if reach {
				return "no-route-although-path-exists", fmt.Sprintf("graph %v: a path to n%d of cost %d exists, the table has no entry", g.Arcs, j, ref[0][j]), entries
			}
			return "route-without-path", fmt.Sprintf("graph %v: no path to n%d, table says via %v", g.Arcs, j, nh), entries
		}
		if !has {
			continue
		}
		entries++
		// next hop must be an own (current or recently lost) neighbour on a minimum-cost path
		k := -1
		for x := 1; x < g.N; x++ {
			if gen.MustEID(c20Name(x)) == nh {
				k = x
			}
		}
		if k < 0 || g.Arcs[k] == 0 || g.Arcs[k] == 5 {
			return "next-hop-not-a-neighbour", fmt.Sprintf("graph %v: next hop for n%d is %v", g.Arcs, j, nh), entries
		}
		first := int64(0)
		if g.Arcs[k] >= 2 && g.Arcs[k] < 4 {
			first = g.lossAgo(0, k)
		}
		if first+ref[k][j] != ref[0][j] {
			return "next-hop-not-on-a-least-cost-path", fmt.Sprintf("graph %v: destination n%d: least cost %d, via chosen next hop n%d the best is %d", g.Arcs, j, ref[0][j], k, first+ref[k][j]), entries
		}
	}
	return "", "", entries
}

// c20RunOrder: link-state data from one node is replaced only by data with a newer timestamp, in whatever order it arrives.
func c20RunOrder(n *nhNode, order []int) (string, string) {
	vtime.SetVirtual(VNow)
	d := routing.VerifNewDTLSR(n.core, routing.DTLSRConfig{RecomputeTime: "30s", BroadcastTime: "30s", PurgeTime: "10m"})
	stamps := []bpv7.DtnTime{1, 2, 2, 3}
	best, bestIdx := bpv7.DtnTime(0), -1
	for _, u := range order {
		// update u announces a distinctive peer so that the kept one can be recognised
		peers := map[bpv7.EndpointID]bpv7.DtnTime{gen.MustEID(fmt.Sprintf("dtn://marker%d/", u)): 0}
		d.VerifLinkState(c20LinkStateBundle(1, stamps[u], peers, uint64(10+u)))
		if bestIdx < 0 || stamps[u] > best {
			best, bestIdx = stamps[u], u
		}
		got := d.VerifReceived()[gen.MustEID(c20Name(1))]
		var marks []string
		for p := range got.Peers {
			marks = append(marks, p.String())
		}
		sort.Strings(marks)
		want := fmt.Sprintf("dtn://marker%d/", bestIdx)
		if got.Timestamp != best || len(marks) != 1 || marks[0] != want {
			return "link-state-replaced-by-older-or-equal-data", fmt.Sprintf("arrival order %v (timestamps 1,2,2,3 by index): after update %d the node keeps timestamp %d peers %v, expected the first arrival of the newest timestamp (%d, %s)", order, u, got.Timestamp, marks, best, want)
		}
	}
	return "", ""
}

func c20Worker(task []byte) []byte {
	var t c20Task
	var out c20Out
	_ = json.Unmarshal(task, &t)
	useVirtualClock()
	n, err := newNhNode(nhConfig{Algo: "dtlsr"})
	if err != nil {
		out.Viol = append(out.Viol, schedViol{Key: "harness-open", Desc: err.Error()})
		return mustJSON(out)
	}
	defer n.destroy()
	sigs := map[string]bool{}
	for _, g := range t.Graphs {
		k, d, e := c20RunGraph(n, g)
		out.Graphs++
		out.Entries += e
		sigs[fmt.Sprintf("%d/%d", g.N, e)] = true
		if k != "" && len(out.Viol) < 20 {
			out.Viol = append(out.Viol, schedViol{Key: k, Desc: d})
		}
	}
	for _, o := range t.Orders {
		out.OrderChk++
		if k, d := c20RunOrder(n, o); k != "" && len(out.Viol) < 20 {
			out.Viol = append(out.Viol, schedViol{Key: k, Desc: d})
		}
	}
	out.Sigs = len(sigs)
	return mustJSON(out)
}

// ---- forwarding on a live node ----

func c20FwdDef() nhCheckDef {
	data := gen.Spec{Dst: "dtn://n2/app", Src: "dtn://node/app", Rpt: "dtn://node/app", PCRC: 2, Lifetime: 3600000, PayLen: 5, PaySeed: 1}
	// link state of n1: it reaches n2; of n3: it reaches n2 through a link lost a while ago
	ls := func(from string, peer string, seq uint64) gen.Spec {
		return gen.Spec{Dst: "dtn://routing/dtlsr/broadcast/", Src: "dtn://" + from + "/", Rpt: "dtn://" + from + "/", PCRC: 2, Lifetime: 60000, PayLen: 1, Flags: 4, PaySeed: byte(seq), Seq: seq,
			Ext: []gen.BSpec{{Kind: "dtlsr", S: []string{"dtn://" + from + "/", "dtn://" + peer + "/"}, N: []uint64{DtnNow() - 5, 0}}}}
	}
	return nhCheckDef{Scenarios: []nhScenario{{Cfg: nhConfig{Algo: "dtlsr"}, Bundles: []nhBundle{
		{Spec: data, Local: true, Dest: "n2"},
		{Spec: ls("n1", "n2", 1), Dest: "nobody"},
		{Spec: ls("n3", "n4", 2), Dest: "nobody"},
	}}}, Oracle: c20FwdOracle}
}

// c20FwdOracle: a unicast bundle is handed only to the table's next hop for its destination (or directly to the
// destination) and then released; a broadcast bundle goes at most once to every peer.
func c20FwdOracle(r *nhRun) (string, string) {
	last := r.steps[len(r.steps)-1]
	table, ok := routing.VerifDTLSRTable(r.n.core.VerifAlgorithm())
	if !ok {
		return "harness-not-dtlsr", ""
	}
	for _, s := range last.Sends {
		if r.tr[0].Accepted && idOfSend(s) == r.idString(0) && s.Peer != "n2" {
			nh, has := table[gen.MustEID("dtn://n2/app")]
			if !has {
				nh, has = table[gen.MustEID("dtn://n2/")]
			}
			if !has || nh != gen.MustEID("dtn://"+s.Peer+"/") {
				return "unicast-handed-to-peer-that-is-not-the-next-hop", fmt.Sprintf("the unicast bundle for n2 was handed to %s; routing table entry: %v (present %v)", s.Peer, nh, has)
			}
		}
	}
	// broadcast bundles: at most once per peer over the whole history
	count := map[string]int{}
	for _, st := range r.steps {
		for _, s := range st.Sends {
			for i := 1; i <= 2; i++ {
				if r.tr[i].Accepted && idOfSend(s) == r.idString(i) && s.OK {
					count[fmt.Sprintf("b%d->%s", i, s.Peer)]++
				}
			}
		}
	}
	for k, c := range count {
		if c > 1 {
			return "broadcast-sent-twice-to-a-peer", fmt.Sprintf("%s %d times", k, c)
		}
	}
	// released after a successful hand-over to the next hop
	if r.tr[0].Accepted && len(r.tr[0].OKPeers) > 0 && r.n.storeInfo(r.tr[0].ID).Known {
		return "unicast-not-released-after-forwarding", fmt.Sprintf("the unicast bundle was transmitted successfully to %v but is still in the store", r.tr[0].OKPeers)
	}
	return "", ""
}

func c20AllGraphs(n int, states []int, maxLost int) []c20Graph {
	var out []c20Graph
	arcs := n * (n - 1)
	total := 1
	for i := 0; i < arcs; i++ {
		total *= len(states)
	}
	for code := 0; code < total; code++ {
		g := c20Graph{N: n, Arcs: make([]int, n*n)}
		c := code
		lost := 0
		for i := 0; i < n; i++ {
			for j := 0; j < n; j++ {
				if i == j {
					continue
				}
				st := states[c%len(states)]
				c /= len(states)
				g.Arcs[i*n+j] = st
				if st >= 2 {
					lost++
				}
			}
		}
		if maxLost >= 0 && lost > maxLost {
			continue
		}
		out = append(out, g)
	}
	return out
}

// c20Returning: 4-node graphs in which one or both of the node's own links were lost and came back (state 4),
// combined with every state of the other own link and of the two second-hop links.
func c20Returning() []c20Graph {
	var out []c20Graph
	for _, a := range []int{4, 5, 1, 2, 3} {
		for _, b := range []int{4, 5, 1, 2, 3} {
			if a < 4 && b < 4 {
				continue
			}
			for _, c := range []int{0, 1, 2, 3} {
				for _, d := range []int{0, 1, 2, 3} {
					g := c20Graph{N: 4, Arcs: make([]int, 16)}
					g.Arcs[1], g.Arcs[2] = a, b
					g.Arcs[1*4+3], g.Arcs[2*4+3] = c, d
					out = append(out, g)
				}
			}
		}
	}
	return out
}

func c20Families() []c20Graph {
	var out []c20Graph
	for n := 5; n <= 8; n++ {
		mk := func() c20Graph { return c20Graph{N: n, Arcs: make([]int, n*n)} }
		path := mk()
		for i := 0; i+1 < n; i++ {
			path.Arcs[i*n+i+1] = 1
		}
		ring := mk()
		for i := 0; i < n; i++ {
			ring.Arcs[i*n+(i+1)%n] = 1 + (i%3)%2*2
		}
		star := mk()
		for i := 1; i < n; i++ {
			star.Arcs[i] = 1
			star.Arcs[i*n] = 1
		}
		// two-path diamond with lost links of different age
		dia := mk()
		dia.Arcs[1], dia.Arcs[2] = 1, 1
		dia.Arcs[1*n+n-1], dia.Arcs[2*n+n-1] = 2, 3
		dia2 := mk()
		dia2.Arcs[1], dia2.Arcs[2] = 3, 2
		dia2.Arcs[1*n+3], dia2.Arcs[2*n+3] = 1, 1
		dia2.Arcs[3*n+n-1] = 1
		out = append(out, path, ring, star, dia, dia2)
	}
	return out
}

// c20Diamonds: self -> n1 and n2 live; n1 and n2 each lost their link to n3 some time ago and reported it at
// different times: the cost of a lost link is the time since the loss, whenever it was reported.
func c20Diamonds() []c20Graph {
	var out []c20Graph
	ages := []int64{20000, 15000, 12000, 3000}
	reps := []int64{1, 1000, 10000}
	for _, a1 := range ages {
		for _, a2 := range ages {
			for _, r1 := range reps {
				for _, r2 := range reps {
					if r1 > a1 || r2 > a2 {
						continue // a loss cannot be reported before it happened
					}
					g := c20Graph{N: 4, Arcs: make([]int, 16), Loss: make([]int64, 16), Report: []int64{0, r1, r2, 0}}
					g.Arcs[1], g.Arcs[2] = 1, 1
					g.Arcs[1*4+3], g.Arcs[2*4+3] = 2, 2
					g.Loss[1*4+3], g.Loss[2*4+3] = a1, a2
					out = append(out, g)
				}
			}
		}
	}
	return out
}

func permutations(n int) [][]int { return orderings(n) }

func runC20(r *ev.Run, thorough bool) int {
	var graphs []c20Graph
	graphs = append(graphs, c20AllGraphs(3, []int{0, 1, 2, 3}, -1)...)
	if thorough {
		graphs = append(graphs, c20AllGraphs(4, []int{0, 1, 2}, -1)...)
	} else {
		graphs = append(graphs, c20AllGraphs(4, []int{0, 1, 3}, 1)...)
	}
	graphs = append(graphs, c20Families()...)
	graphs = append(graphs, c20Diamonds()...)
	graphs = append(graphs, c20Returning()...)
	// histories: the same graphs reached from an earlier, fully connected epoch (3-node graphs, families, diamonds,
	// returning neighbours; thorough: the 4-node graphs as well)
	nfresh := len(graphs)
	for i := 0; i < nfresh; i++ {
		g := graphs[i]
		if g.N == 4 && len(g.Loss) == 0 && len(g.Report) == 0 && !thorough && i >= 4096 && i%3 != 0 {
			continue
		}
		g.Pre = true
		graphs = append(graphs, g)
	}
	var orders [][]int
	for _, p := range permutations(4) {
		orders = append(orders, p)
	}
	for _, p := range permutations(3) {
		orders = append(orders, p)
	}
	var tasks []c20Task
	for i := 0; i < len(graphs); i += 400 {
		j := i + 400
		if j > len(graphs) {
			j = len(graphs)
		}
		tasks = append(tasks, c20Task{Graphs: graphs[i:j]})
	}
	tasks = append(tasks, c20Task{Orders: orders})
	raw := make([][]byte, len(tasks))
	for i, t := range tasks {
		raw[i] = mustJSON(t)
	}
	var mu sync.Mutex
	entries, ng, oc := 0, 0, 0
	runPool("c20", 0, raw, func(i int, pr poolResult) {
		mu.Lock()
		defer mu.Unlock()
		if pr.Crashed {
			r.Violation("C20/crashed", "task", "process died: "+lastLines(pr.Stderr, 12), nil)
			return
		}
		var o c20Out
		_ = json.Unmarshal(pr.Res, &o)
		entries += o.Entries
		ng += o.Graphs
		oc += o.OrderChk
		for _, v := range o.Viol {
			r.Violation("C20/"+v.Key, "graph", v.Desc, map[string]string{"desc": v.Desc})
		}
		if i%9 == 0 && len(tasks[i].Graphs) > 0 {
			r.Sample(map[string]interface{}{"graph": tasks[i].Graphs[len(tasks[i].Graphs)/2]})
		}
	})
	// E3: two updates of one node handled at once, all schedules up to the preemption bound
	sbound := 2
	if thorough {
		sbound = 4
	}
	ssum := exploreSchedules("c20updates", nil, sbound, 20000)
	r.Add("sched_executions", int64(ssum.Execs))
	r.Add("sched_distinct_outcomes", int64(len(ssum.Outcomes)))
	if ssum.Capped {
		r.Capped("schedule exploration of two concurrent link-state updates stopped at 20000 executions")
	}
	for _, v := range ssum.Viol {
		r.Violation("C20/concurrent:"+v.Key, "sched", v.Desc, schedTask{Scenario: "c20updates", Prefix: v.Prefix, Single: true})
	}
	r.Add("graphs", int64(ng))
	r.Add("routing_table_entries_checked", int64(entries))
	r.Add("update_orders", int64(oc))
	// forwarding
	alpha := []nhEvent{{Op: "submit", B: 0}, {Op: "receive", B: 1, P: "n1", Q: "n1"}, {Op: "receive", B: 2, P: "n3", Q: "n3"}, {Op: "up", P: "n1"}, {Op: "up", P: "n3"}, {Op: "up", P: "n2"}, {Op: "down", P: "n1"}, {Op: "up", P: "n1#2"},
		{Op: "cron", N: "dtlsr_recompute"}, {Op: "cron", N: "dtlsr_broadcast"}, {Op: "retry"}, {Op: "fail", P: "n1"}, {Op: "ok", P: "n1"}, {Op: "advance", S: 1}}
	var st nhBFSStats
	depth, budget := 4, 6000
	if thorough {
		depth, budget = 6, 200000
	}
	nhExplore(r, "C20", "c20fwd", 0, nil, alpha, depth, budget, &st)
	nhExplore(r, "C20", "c20fwd", 0, []nhEvent{{Op: "up", P: "n1"}, {Op: "up", P: "n3"}, {Op: "receive", B: 1, P: "n1", Q: "n1"}, {Op: "cron", N: "dtlsr_recompute"}}, alpha, depth-1, budget, &st)
	r.Add("forwarding_transitions", int64(st.Transitions))
	r.Add("forwarding_sends_observed", int64(st.SendsSeen))
	if entries == 0 || st.SendsSeen == 0 {
		r.Violation("C20/vacuous", "none", "nothing explored", nil)
	}
	return r.Finish(map[string]interface{}{
		"states":                        ng + st.States,
		"transitions":                   ng + oc + st.Transitions,
		"traces_validated_against_impl": ng + oc + st.Validated,
		"evaluations":                   ng + oc + st.Transitions,
		"distinct_nontrivial":           entries + st.Outcomes,
		"rule":                          "(a) ALL directed link-state graphs on 3 nodes with each arc absent / live / lost 10 s ago / lost 3 s ago (4^6), on 4 nodes with 3 arc states (3^12 thorough; quick: live/lost with at most one lost arc), structured families (paths, rings, stars, two-path diamonds with lost links of different age) on 5..8 nodes, and 4-node diamonds over 4 loss ages x 3 report ages per branch; every node with several links first announces one of them and then, with a newer timestamp, all of them: own links through ReportPeerAppeared/Disappeared at the virtual loss instants, foreign link state through NotifyNewBundle, recomputation through the registered task; the routing table is compared with Floyd-Warshall: entry <=> path, next hop an own neighbour with cost(self,nh)+dist(nh,d)=dist(self,d); every such graph (quick: a third of the exhaustive 4-node ones) also as a HISTORY: the announcing nodes first announced live links to all nodes, a table was computed, then the announcements of the graph replaced the data - the final table must equal the fresh one (no stale routes); (b) all arrival orders of 3 and 4 link-state updates of one node with timestamps 1,2,2,3: the first arrival of the newest timestamp is kept; (c) BFS over a live node: a unicast bundle is handed only to the table's next hop (or the destination) and then released, broadcast bundles at most once per peer",
	}, []string{"exhaustive graphs beyond 4 nodes are not covered (families only)", "DTLSR seams call the algorithm's own code through one-line bridges"})
}

func replayC20(kind string, c json.RawMessage) (string, bool) {
	if kind == "history" || kind == "sched" {
		return nhReplayAny(kind, c)
	}
	return "graphs are enumerated deterministically: re-run the check (the violating graph is in the artefact)", false
}

// ---- E3: two link-state updates of one node handled at the same time ----
// NotifyNewBundle is reached from the Core's handler goroutine (receptions) and from agents' goroutines
// (SendBundle): every schedule of two such calls must leave the update with the newer timestamp stored.

func init() { schedScenarios["c20updates"] = schedScenario{Setup: c20UpdatesSetup} }

func c20UpdatesSetup(arg json.RawMessage) (func(), func(vrt.Result) (string, string, string), func()) {
	useVirtualClock()
	n, err := newNhNode(nhConfig{Algo: "epidemic"})
	if err != nil {
		panic(err)
	}
	d := routing.VerifNewDTLSR(n.core, routing.DTLSRConfig{RecomputeTime: "30s", BroadcastTime: "30s", PurgeTime: "10m"})
	now := bpv7.DtnTimeFromTime(VNow)
	peersOld := map[bpv7.EndpointID]bpv7.DtnTime{gen.MustEID(c20Name(2)): 0}
	peersNew := map[bpv7.EndpointID]bpv7.DtnTime{gen.MustEID(c20Name(2)): 0, gen.MustEID(c20Name(3)): 0}
	older := c20LinkStateBundle(1, now-5000, peersOld, 1)
	newer := c20LinkStateBundle(1, now-1000, peersNew, 2)
	body := func() {
		var wg vsync.WaitGroup
		wg.Add(1)
		vrt.Go("harness", func() {
			defer wg.Done()
			d.VerifLinkState(older)
		})
		d.VerifLinkState(newer)
		wg.Wait()
	}
	judge := func(res vrt.Result) (obs, key, desc string) {
		got, ok := d.VerifReceived()[gen.MustEID(c20Name(1))]
		obs = fmt.Sprintf("stored=%v ts=%d links=%d", ok, got.Timestamp, len(got.Peers))
		if !ok || got.Timestamp != now-1000 || len(got.Peers) != 2 {
			return obs, "older-link-state-replaces-newer", fmt.Sprintf("two updates of n1 (timestamps %d and %d) were handled concurrently; stored afterwards: present=%v timestamp=%d with %d links - the newer one must win in every schedule", now-5000, now-1000, ok, got.Timestamp, len(got.Peers))
		}
		return obs, "", ""
	}
	return body, judge, func() { n.destroy() }
}
