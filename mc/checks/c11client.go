package checks

import (
	"bytes"
	"encoding/json"
	"fmt"
	"net"
	"time"

	"github.com/dtn7/dtn7-go/pkg/bpv7"
	"github.com/dtn7/dtn7-go/pkg/cla"
	"github.com/dtn7/dtn7-go/pkg/cla/tcpclv4"
	"github.com/dtn7/dtn7-go/verif/gen"
	"github.com/dtn7/dtn7-go/verif/vtime"
)

// C11 at the level of the tcpclv4 Client (session establishment, the MRU the peer announced, the reports of received
// bundles), over in-memory pipes under the real clock. Every wait is for an expected event with a generous bound.

func init() { workers["c11client"] = c11ClientWorker }

type c11ClientTask struct {
	Kind string `json:"kind"` // mru | pair
	MRU  uint64 `json:"mru,omitempty"`
	Pay  int    `json:"pay,omitempty"`
	N    int    `json:"n,omitempty"`
}

func c11ClientWorker(task []byte) []byte {
	var t c11ClientTask
	_ = json.Unmarshal(task, &t)
	vtime.SetReal()
	gen.RegisterAll()
	res := c11Result{}
	fail := func(k, d string) []byte { res.Key, res.Desc = k, d; return mustJSON(res) }
	mk := func(i, pay int) bpv7.Bundle {
		return gen.Spec{Dst: "dtn://peer/x", Src: "dtn://sender/app", Rpt: "dtn://sender/app", PCRC: 2, Time: uint64(time.Now().UnixNano()/1e6) - 946684800000, Seq: uint64(i), Lifetime: 3600000, PayLen: pay, PaySeed: byte(i + 1),
			Ext: []gen.BSpec{{Kind: "hop", N: []uint64{64, 0}}}}.Build()
	}
	wait := func(ch chan error, what string) error {
		select {
		case e := <-ch:
			return e
		case <-time.After(30 * time.Second):
			return fmt.Errorf("%s: nothing after 30 s", what)
		}
	}
	switch t.Kind {
	case "mru":
		// an active Client against a scripted passive peer that announces segment MRU t.MRU
		c1, c2 := net.Pipe()
		client := tcpclv4.VerifPipeClient(c1, true, gen.MustEID("dtn://sender/"))
		type peerOut struct {
			segs []tcpclv4.VerifSeg
			data [][]byte
			err  error
		}
		pch := make(chan peerOut, 1)
		go func() {
			s, d, e := tcpclv4.VerifScriptedPeer(c2, t.MRU, 2)
			pch <- peerOut{s, d, e}
		}()
		sch := make(chan error, 1)
		go func() { e, _ := client.Start(); sch <- e }()
		if e := wait(sch, "session establishment"); e != nil {
			return fail("C11/client-session-not-established", e.Error())
		}
		var encs [][]byte
		for i := 0; i < 2; i++ {
			b := mk(i, t.Pay)
			enc, _ := gen.Ser(&b)
			encs = append(encs, enc)
			ech := make(chan error, 1)
			go func() { ech <- client.Send(b) }()
			if e := wait(ech, "Send"); e != nil {
				return fail("C11/client-send-failed", fmt.Sprintf("peer announced segment MRU %d, bundle %d of %d octets: %v", t.MRU, i, len(enc), e))
			}
		}
		var po peerOut
		select {
		case po = <-pch:
		case <-time.After(30 * time.Second):
			return fail("C11/hang:client", "the scripted peer did not see the end of both transfers")
		}
		_ = client.Close()
		if po.err != nil {
			return fail("C11/client-peer-error", po.err.Error())
		}
		limit := t.MRU
		if limit > 1<<20 {
			limit = 1 << 20
		}
		first := true
		for i, s := range po.segs {
			if uint64(s.Len) > limit {
				return fail("C11/client-segment-exceeds-peer-mru", fmt.Sprintf("the peer announced a segment MRU of %d octets; segment %d carries %d", t.MRU, i, s.Len))
			}
			if s.Start != first {
				return fail("C11/start-flag", fmt.Sprintf("client level: segment %d START=%v", i, s.Start))
			}
			first = s.End
		}
		if len(po.data) != 2 || !bytes.Equal(po.data[0], encs[0]) || !bytes.Equal(po.data[1], encs[1]) {
			return fail("C11/client-transferred-different-bytes", fmt.Sprintf("the peer received %d transfers; contents differ from the bundles sent", len(po.data)))
		}
		res.Out = fmt.Sprintf("mru=%d segs=%d", t.MRU, len(po.segs))
	case "pair":
		// two real Clients; t.N bundles are sent while nobody reads the receiver's status channel
		c1, c2 := net.Pipe()
		snd := tcpclv4.VerifPipeClient(c1, true, gen.MustEID("dtn://sender/"))
		rcv := tcpclv4.VerifPipeClient(c2, false, gen.MustEID("dtn://peer/"))
		sch := make(chan error, 2)
		go func() { e, _ := snd.Start(); sch <- e }()
		go func() { e, _ := rcv.Start(); sch <- e }()
		for i := 0; i < 2; i++ {
			if e := wait(sch, "session establishment"); e != nil {
				return fail("C11/client-session-not-established", e.Error())
			}
		}
		var encs [][]byte
		for i := 0; i < t.N; i++ {
			b := mk(i, t.Pay+i)
			enc, _ := gen.Ser(&b)
			encs = append(encs, enc)
			ech := make(chan error, 1)
			go func() { ech <- snd.Send(b) }()
			if e := wait(ech, "Send"); e != nil {
				return fail("C11/client-send-failed", fmt.Sprintf("bundle %d: %v", i, e))
			}
		}
		// every Send returned after the final acknowledgement; the receiver queues its reports - read them only now
		if !waitFor(func() bool { return len(rcv.Channel()) >= t.N+1 }) {
			return fail("C11/client-bundle-not-reported", fmt.Sprintf("%d bundles were sent and acknowledged, the receiving client queued %d status messages", t.N, len(rcv.Channel())))
		}
		var got [][]byte
		for len(got) < t.N {
			cs := <-rcv.Channel()
			if cs.MessageType == cla.ReceivedBundle {
				e, _ := gen.Ser(cs.Message.(cla.ConvergenceReceivedBundle).Bundle)
				got = append(got, e)
			}
		}
		_ = snd.Close()
		_ = rcv.Close()
		for i := range encs {
			if !bytes.Equal(got[i], encs[i]) {
				return fail("C11/client-reports-different-bundle", fmt.Sprintf("%d bundles were sent over one session; report %d carries another bundle than the %d-th one sent (read after all reports were queued)", t.N, i, i))
			}
		}
		res.Out = fmt.Sprintf("pair n=%d", t.N)
	}
	return mustJSON(res)
}
