package checks

import (
	"bytes"
	"fmt"
	"os"
	"path/filepath"
	"sort"
	"strings"
	"sync"
	"sync/atomic"
	"time"

	"github.com/dtn7/dtn7-go/pkg/agent"
	"github.com/dtn7/dtn7-go/pkg/bpv7"
	"github.com/dtn7/dtn7-go/pkg/cla"
	"github.com/dtn7/dtn7-go/pkg/routing"
	"github.com/dtn7/dtn7-go/verif/gen"
	"github.com/dtn7/dtn7-go/verif/ref"
	"github.com/dtn7/dtn7-go/verif/vrt"
	"github.com/dtn7/dtn7-go/verif/vsync"
	"github.com/dtn7/dtn7-go/verif/vtime"
)

// Node harness: a real routing.Core on a scratch directory under the virtual
// clock, with mock convergence senders and mock application agents. Every
// event is driven to quiescence by blocking hand-offs and marker messages.

const nhNodeID = "dtn://node/"

type nhSend struct {
	Peer    string // peer node
	Via     string // convergence adapter (differs from Peer for a second adapter to the same node)
	Enc     []byte
	OK      bool
	At      time.Time // virtual time of the send
	EventNo int
}

type nhPeer struct {
	name string
	n    *nhNode
	ch   chan cla.ConvergenceStatus
	up   bool
}

func (p *nhPeer) Start() (error, bool)                { return nil, false }
func (p *nhPeer) Close() error                        { return nil }
func (p *nhPeer) Channel() chan cla.ConvergenceStatus { return p.ch }
func (p *nhPeer) Address() string                     { return "mock://" + p.name }
func (p *nhPeer) IsPermanent() bool                   { return true }
func (p *nhPeer) GetPeerEndpointID() bpv7.EndpointID {
	if p.node() == "anon" {
		return bpv7.DtnNone() // a neighbour that did not name itself (anonymous MTCP client, broadcast connector)
	}
	return gen.MustEID("dtn://" + p.node() + "/")
}
func (p *nhPeer) String() string { return "mock-" + p.name }

// node is the name of the peer node: a convergence adapter named "r1#2" is a second adapter (another address) to
// the node r1. Sends are recorded under the node name, which is what the oracles reason about.
func (p *nhPeer) node() string { return strings.SplitN(p.name, "#", 2)[0] }

// Send serialises the bundle inside the call, like real convergence layers do,
// and answers with the scripted outcome. Each Send is a schedule point for
// managed threads.
func (p *nhPeer) Send(b bpv7.Bundle) error {
	vrt.Point("mock.Send:" + p.name)
	var buf bytes.Buffer
	err := b.WriteBundle(&buf)
	p.n.mu.Lock()
	ok := p.n.outcome[p.name]
	if err != nil {
		p.n.sendErrs = append(p.n.sendErrs, fmt.Sprintf("%s: bundle handed to Send cannot be serialised: %v", p.name, err))
	}
	p.n.sends = append(p.n.sends, nhSend{Peer: p.node(), Via: p.name, Enc: buf.Bytes(), OK: ok && err == nil, At: vtime.Now(), EventNo: p.n.eventNo})
	p.n.mu.Unlock()
	vrt.Point("mock.Send.done:" + p.name)
	if !ok || err != nil {
		return fmt.Errorf("scripted send failure")
	}
	return nil
}

type nhAgent struct {
	eids     []bpv7.EndpointID
	receiver chan agent.Message
	sender   chan agent.Message
	mu       sync.Mutex
	got      []agent.Message
	done     chan struct{}
	stalled  bool
	wake     chan struct{}
	parked   chan struct{}
	kick     chan struct{}
}

// stall makes the agent stop taking messages until resume is called; it returns when the agent is parked.
func (a *nhAgent) stall() {
	a.mu.Lock()
	a.stalled, a.wake, a.parked = true, make(chan struct{}), make(chan struct{})
	p := a.parked
	a.mu.Unlock()
	select {
	case a.kick <- struct{}{}:
	default:
	}
	<-p
}

func (a *nhAgent) resume() {
	a.mu.Lock()
	if a.stalled {
		a.stalled = false
		close(a.wake)
	}
	a.mu.Unlock()
}

func newNhAgent(eids ...string) *nhAgent {
	a := &nhAgent{receiver: make(chan agent.Message), sender: make(chan agent.Message), done: make(chan struct{})}
	for _, e := range eids {
		a.eids = append(a.eids, gen.MustEID(e))
	}
	a.kick = make(chan struct{}, 1)
	go func() {
		defer close(a.done)
		for {
			a.mu.Lock()
			stalled, wake, parked := a.stalled, a.wake, a.parked
			a.mu.Unlock()
			if stalled {
				select {
				case <-parked:
				default:
					close(parked)
				}
				<-wake // a stalled agent does not take messages
				continue
			}
			select {
			case <-a.kick:
				continue
			case m, ok := <-a.receiver:
				if !ok {
					return
				}
				a.mu.Lock()
				a.got = append(a.got, m)
				a.mu.Unlock()
				if _, ok := m.(agent.ShutdownMessage); ok {
					return
				}
			}
		}
	}()
	return a
}
func (a *nhAgent) Endpoints() []bpv7.EndpointID        { return a.eids }
func (a *nhAgent) MessageReceiver() chan agent.Message { return a.receiver }
func (a *nhAgent) MessageSender() chan agent.Message   { return a.sender }

// waitBundles waits until the agent has received at least n bundle messages (delivery through the mux is
// asynchronous); it gives up after a generous watchdog and reports false.
func (a *nhAgent) waitBundles(n int) bool {
	deadline := time.Now().Add(20 * time.Second)
	for len(a.bundles()) < n {
		if time.Now().After(deadline) {
			return false
		}
		time.Sleep(50 * time.Microsecond)
	}
	return true
}

func (a *nhAgent) bundles() [][]byte {
	a.mu.Lock()
	defer a.mu.Unlock()
	var out [][]byte
	for _, m := range a.got {
		if bm, ok := m.(agent.BundleMessage); ok {
			e, _ := gen.Ser(&bm.Bundle)
			out = append(out, e)
		}
	}
	return out
}

type nhConfig struct {
	Algo    string  `json:"algo"` // epidemic spray binary_spray prophet dtlsr sensor-mule
	SprayL  uint64  `json:"spray_l,omitempty"`
	PInit   float64 `json:"p_init,omitempty"`
	Beta    float64 `json:"beta,omitempty"`
	Gamma   float64 `json:"gamma,omitempty"`
	Inspect bool    `json:"inspect,omitempty"`
	Agents  bool    `json:"agents,omitempty"` // register a mock agent on dtn://node/app
	// LiveCron leaves the registered cron jobs in place: they fire when the virtual clock is advanced tick by tick
	// (the wiring scenario); otherwise the harness takes them out and runs them as explicit events.
	LiveCron bool `json:"live_cron,omitempty"`
	// MuleInner: the algorithm wrapped by the sensor-mule algorithm (default epidemic)
	MuleInner string `json:"mule_inner,omitempty"`
}

type nhNode struct {
	cfg      nhConfig
	dir      string
	core     *routing.Core
	cron     map[string]func()
	peers    map[string]*nhPeer
	mu       sync.Mutex
	outcome  map[string]bool
	sends    []nhSend
	sendErrs []string
	eventNo  int
	agent    *nhAgent
	closed   bool
}

var nhDirSeq int

func nhRoutingConf(cfg nhConfig) routing.RoutingConf {
	l := cfg.SprayL
	if l == 0 {
		l = 4
	}
	pi, be, ga := cfg.PInit, cfg.Beta, cfg.Gamma
	if pi == 0 && be == 0 && ga == 0 {
		pi, be, ga = 0.75, 0.25, 0.98
	}
	rc := routing.RoutingConf{Algorithm: cfg.Algo, SprayConf: routing.SprayConfig{Multiplicity: l},
		DTLSRConf:   routing.DTLSRConfig{RecomputeTime: "30s", BroadcastTime: "30s", PurgeTime: "10m"},
		ProphetConf: routing.ProphetConfig{PInit: pi, Beta: be, Gamma: ga, AgeInterval: "1m"}}
	if cfg.Algo == "sensor-mule" {
		inner := rc
		inner.Algorithm = "epidemic"
		if cfg.MuleInner != "" {
			inner.Algorithm = cfg.MuleInner
		}
		rc.SensorMuleConf = routing.SensorNetworkMuleConfig{Algorithm: &inner, SensorNodeRegex: "^dtn://sensor.*$"}
	}
	return rc
}

func newNhNode(cfg nhConfig) (*nhNode, error) {
	nhDirSeq++
	dir := filepath.Join(os.Getenv("VERIF_SCRATCH"), fmt.Sprintf("node-%d-%d", os.Getpid(), nhDirSeq))
	n := &nhNode{cfg: cfg, dir: dir, peers: map[string]*nhPeer{}, outcome: map[string]bool{}}
	if err := n.open(); err != nil {
		return nil, err
	}
	return n, nil
}

func (n *nhNode) open() error {
	gen.RegisterAll()
	// explicit-state replays must be deterministic: the per-peer sender goroutines of Core.forward run one
	// after the other in spawn order (their interleavings are the subject of the schedule exploration)
	vrt.SerialLabels.Store("processing.go:forward", true)
	atomic.StoreInt32(&vsync.RangeOrder, 1)
	c, err := routing.NewCore(n.dir, gen.MustEID(nhNodeID), n.cfg.Inspect, nhRoutingConf(n.cfg), nil)
	if err != nil {
		return err
	}
	n.core = c
	if !n.cfg.LiveCron {
		n.cron = c.VerifTakeCron()
	}
	n.closed = false
	if n.cfg.Agents {
		n.agent = newNhAgent("dtn://node/app", "dtn://monitoring/reports") // the second endpoint is local under another node name
		c.RegisterApplicationAgent(n.agent)
	}
	return nil
}

func (n *nhNode) close() {
	if n.closed {
		return
	}
	n.closed = true
	n.core.Close()
	// Core.Close leaves the agent manager and the mux running; stop them so that closed nodes can be collected
	n.core.VerifCloseAgents()
	if n.agent != nil {
		<-n.agent.done
		close(n.agent.sender)
		n.agent = nil
	}
	for _, p := range n.peers {
		p.up = false
	}
}

func (n *nhNode) destroy() {
	n.close()
	_ = os.RemoveAll(n.dir)
}

func (n *nhNode) peer(name string) *nhPeer {
	p, ok := n.peers[name]
	if !ok {
		p = &nhPeer{name: name, n: n, ch: make(chan cla.ConvergenceStatus)}
		n.peers[name] = p
		if _, set := n.outcome[name]; !set {
			n.outcome[name] = true
		}
	}
	return p
}

// flush waits until the Core's handler has finished everything injected so far.
func (n *nhNode) flush() {
	n.core.VerifInject(cla.ConvergenceStatus{MessageType: 99})
}

func (n *nhNode) setOutcome(peer string, ok bool) {
	n.mu.Lock()
	n.outcome[peer] = ok
	n.mu.Unlock()
}

func (n *nhNode) peerUp(name string) {
	p := n.peer(name)
	if p.up {
		return
	}
	p.up = true
	n.core.RegisterConvergable(p)
	n.core.VerifInject(cla.NewConvergencePeerAppeared(p, p.GetPeerEndpointID()))
	n.flush()
}

func (n *nhNode) peerDown(name string) {
	p := n.peer(name)
	if !p.up {
		return
	}
	p.up = false
	n.core.VerifManager().Unregister(p)
	n.core.VerifInject(cla.NewConvergencePeerDisappeared(p, p.GetPeerEndpointID()))
	n.flush()
}

// receive hands a bundle to the node as if it had arrived from peer `from`.
func (n *nhNode) receive(b bpv7.Bundle, from string) {
	p := n.peer(from)
	n.core.VerifInject(cla.NewConvergenceReceivedBundle(p, gen.MustEID(nhNodeID), &b))
	n.flush()
}

func (n *nhNode) submit(b bpv7.Bundle) { n.core.SendBundle(&b) }

// submitID submits the bundle and returns the ID the node assigned to it (SendBundle sets the sequence number).
func (n *nhNode) submitID(b bpv7.Bundle) bpv7.BundleID {
	n.core.SendBundle(&b)
	return b.ID().Scrub()
}

// assignedID finds the ID under which a locally submitted bundle with this payload left the node during the
// current event or is filed in the store (the agent path hands the node a copy, so the caller's bundle is not
// updated); ok is false if neither shows it.
func (n *nhNode) assignedID(payload []byte, sendsFrom int) (bpv7.BundleID, bool) {
	if pend, err := n.core.VerifStore().QueryPending(); err == nil {
		for _, bi := range pend {
			if len(bi.Parts) != 1 {
				continue
			}
			if sb, lerr := bi.Parts[0].Load(); lerr == nil && bytes.Equal(payloadOf(&sb), payload) {
				return sb.ID().Scrub(), true
			}
		}
	}
	for _, s := range n.sendsSince(sendsFrom) {
		if rb, err := ref.Decode(s.Enc); err == nil {
			if pl, ok := rb.Payload(); ok && bytes.Equal(pl, payload) {
				if sb, perr := gen.Parse(s.Enc); perr == nil {
					return sb.ID().Scrub(), true
				}
			}
		}
	}
	return bpv7.BundleID{}, false
}

// submitViaAgent sends the bundle through the application agent path.
func (n *nhNode) submitViaAgent(b bpv7.Bundle) {
	n.agent.sender <- agent.BundleMessage{Bundle: b}
	// two markers push the bundle through the two pipeline stages (mux child handler, agent manager)
	n.agent.sender <- agent.SyscallRequestMessage{Sender: n.agent.eids[0], Request: "verif-marker-1"}
	n.agent.sender <- agent.SyscallRequestMessage{Sender: n.agent.eids[0], Request: "verif-marker-2"}
}

func (n *nhNode) retryTick() { n.core.VerifRetryTick() }
func (n *nhNode) cleanTick() { n.core.VerifStore().DeleteExpired() }

// advance lets virtual time pass. The node's own tickers (cron, CLA retry) have
// nothing to do in the harness (cron jobs are run explicitly), so the clock
// jumps; the cron wiring itself is exercised by the dedicated wiring scenario.
func (n *nhNode) advance(d time.Duration) { vtime.Jump(d) }
func (n *nhNode) runCron(name string) bool {
	if f, ok := n.cron[name]; ok {
		f()
		return true
	}
	return false
}

func (n *nhNode) restart() error {
	n.close()
	n.peers = map[string]*nhPeer{}
	return n.open()
}

// sendsOf returns the sends whose bundle ID (ignoring the fragment part) equals id.
func (n *nhNode) sendsSince(from int) []nhSend {
	n.mu.Lock()
	defer n.mu.Unlock()
	return append([]nhSend(nil), n.sends[from:]...)
}

func (n *nhNode) nSends() int { n.mu.Lock(); defer n.mu.Unlock(); return len(n.sends) }

// storeInfo describes what the store holds for a bundle.
type nhStoreInfo struct {
	Known   bool
	Pending bool
	Cons    []string
}

func (n *nhNode) storeInfo(bid bpv7.BundleID) nhStoreInfo {
	st := n.core.VerifStore()
	var si nhStoreInfo
	bi, err := st.QueryId(bid)
	si.Known = st.KnowsBundle(bid) && err == nil
	if !si.Known {
		return si
	}
	si.Pending = false
	if bis, err := st.QueryPending(); err == nil {
		for _, x := range bis {
			if x.Id == bi.Id {
				si.Pending = true
			}
		}
	}
	si.Cons = n.core.VerifConstraints(bid)
	sort.Strings(si.Cons)
	return si
}

func (n *nhNode) connectedPeers() []string {
	seen := map[string]bool{}
	var out []string
	for _, p := range n.peers {
		if p.up && !seen[p.node()] {
			seen[p.node()] = true
			out = append(out, p.node())
		}
	}
	sort.Strings(out)
	return out
}

// connectedAdapters lists the active convergence adapters (state matching distinguishes them).
func (n *nhNode) connectedAdapters() []string {
	var out []string
	for name, p := range n.peers {
		if p.up {
			out = append(out, name)
		}
	}
	sort.Strings(out)
	return out
}

// decodeSend parses the bytes of a send with the reference decoder.
func decodeSend(s nhSend) (ref.Bundle, error) { return ref.Decode(s.Enc) }

func bidString(b *bpv7.Bundle) string { return b.ID().Scrub().String() }

func joinSorted(xs []string) string { sort.Strings(xs); return strings.Join(xs, ",") }

func verifSprayCopies(a routing.Algorithm, bid bpv7.BundleID) (uint64, bool) {
	return routing.VerifSprayCopies(a, bid)
}

// waitFor waits (bounded by a generous watchdog) for a condition that an asynchronous hand-over will establish.
func waitFor(cond func() bool) bool {
	deadline := time.Now().Add(20 * time.Second)
	for !cond() {
		if time.Now().After(deadline) {
			return false
		}
		time.Sleep(50 * time.Microsecond)
	}
	return true
}
