package checks

import (
	"bytes"
	"encoding/hex"
	"encoding/json"
	"fmt"
	"net/http"
	"net/http/httptest"
	"os"
	"runtime"
	"strings"
	"sync"
	"time"

	"github.com/gorilla/mux"

	"github.com/dtn7/dtn7-go/pkg/agent"
	"github.com/dtn7/dtn7-go/pkg/bpv7"
	"github.com/dtn7/dtn7-go/pkg/cla"
	"github.com/dtn7/dtn7-go/pkg/cla/bbc"
	"github.com/dtn7/dtn7-go/pkg/cla/tcpclv4/vh"
	"github.com/dtn7/dtn7-go/pkg/discovery"
	"github.com/dtn7/dtn7-go/verif/ev"
	"github.com/dtn7/dtn7-go/verif/gen"
	"github.com/dtn7/dtn7-go/verif/ref"
)

func init() {
	All["C04"] = Check{Level: "exploration", Run: runC04, Replay: replayC04}
	workers["c04"] = c04Worker
}

var c04Bounds = []uint64{0, 1, 23, 24, 1 << 16, 1<<31 - 1, 1 << 31, 1<<32 - 1, 1 << 62, 1 << 63, 1<<64 - 1}

type c04Input struct {
	Dec  string `json:"dec"`
	Hex  string `json:"hex,omitempty"`
	Text string `json:"text,omitempty"`
	N    uint64 `json:"n,omitempty"`
	Mut  string `json:"mut"`
}

type c04Task struct {
	Inputs []c04Input `json:"inputs"`
}

type c04Out struct {
	Viol     []schedViol `json:"viol,omitempty"`
	Done     int         `json:"done"`
	Errors   int         `json:"errors"`
	Accepted int         `json:"accepted"`
	Poisoned bool        `json:"poisoned"`
}

// decoders: every function fed by a peer, the local network or a client
var c04Decoders = map[string]func(in c04Input) error{
	"bundle": func(in c04Input) error {
		d, _ := hex.DecodeString(in.Hex)
		_, err := bpv7.ParseBundle(bytes.NewReader(d))
		return err
	},
	"admin-record": func(in c04Input) error {
		d, _ := hex.DecodeString(in.Hex)
		_, err := bpv7.NewAdministrativeRecordFromCbor(d)
		return err
	},
	"tcpcl-message": func(in c04Input) error {
		d, _ := hex.DecodeString(in.Hex)
		_, _, err := vh.DecodeStream(d)
		if err != nil && strings.HasPrefix(err.Error(), "PANIC") {
			panic(err.Error())
		}
		return err
	},
	"mtcp-stream": func(in c04Input) error {
		d, _ := hex.DecodeString(in.Hex)
		_, p := mtcpServe(d)
		if p != nil {
			panic(p)
		}
		return nil
	},
	"bbc-fragments": func(in c04Input) error {
		// the bytes are a sequence of length-prefixed raw fragments handed to the connector
		d, _ := hex.DecodeString(in.Hex)
		c := bbc.NewConnector(nullModem{64}, false)
		for len(d) > 0 {
			n := int(d[0])
			d = d[1:]
			if n > len(d) {
				n = len(d)
			}
			if f, err := bbc.ParseFragment(d[:n]); err == nil {
				_ = c.VerifHandle(f)
				c.VerifDrainOut()
				c.VerifDrainFailures()
				for {
					select {
					case <-c.Channel():
						continue
					default:
					}
					break
				}
			}
			d = d[n:]
		}
		return nil
	},
	"announcements": func(in c04Input) error {
		d, _ := hex.DecodeString(in.Hex)
		_, err := discovery.UnmarshalAnnouncements(d)
		return err
	},
	"wam": func(in c04Input) error {
		d, _ := hex.DecodeString(in.Hex)
		_, _, err := agent.VerifWamDecode(d)
		return err
	},
	"rest-build": func(in c04Input) error {
		router := mux.NewRouter()
		ra := agent.NewRestAgent(router)
		defer func() { ra.MessageReceiver() <- agent.ShutdownMessage{} }()
		go func() {
			for range ra.MessageSender() {
			}
		}()
		post := func(path, body string) string {
			rec := httptest.NewRecorder()
			router.ServeHTTP(rec, httptest.NewRequest(http.MethodPost, path, strings.NewReader(body)))
			return rec.Body.String()
		}
		var rr agent.RestRegisterResponse
		_ = json.Unmarshal([]byte(post("/register", `{"endpoint_id":"dtn://node/app"}`)), &rr)
		post("/build", strings.Replace(in.Text, "UUID", rr.UUID, 1))
		return nil
	},
	"endpoint": func(in c04Input) error {
		_, err := bpv7.NewEndpointID(in.Text)
		return err
	},
	"tcpcl-sender-mru": func(in c04Input) error {
		b := gen.Spec{Dst: "dtn://d/", Src: "dtn://s/", Rpt: "dtn://s/", PCRC: 2, Time: DtnNow(), Lifetime: 60000, PayLen: 40, PaySeed: 1}.Build()
		out, segs := vh.SendWithMRU(b, in.N)
		if os.Getenv("VERIF_DEBUG") != "" {
			fmt.Fprintf(os.Stderr, "mru %d: %s (%d segments)\n", in.N, out, segs)
		}
		if strings.HasPrefix(out, "PANIC") || strings.HasPrefix(out, "SPIN") || strings.HasPrefix(out, "HANG") {
			panic(fmt.Sprintf("%s (segments %d)", out, segs))
		}
		if out != "ok" {
			return fmt.Errorf("%s", out) // counted as "decoded with error"; MRU 0 is refused, every other value must work
		}
		return nil
	},
}

const c04Watchdog = 30 * time.Second

// c04Budget is the fixed allocation allowance per decode. The BBC path runs an xz decompressor whose dictionary
// buffers are a fixed cost of tens of MiB (decompression bombs are declared out of scope).
func c04Budget(dec string) uint64 {
	if dec == "bbc-fragments" {
		return 96 << 20
	}
	return 8 << 20
}

func c04Worker(task []byte) []byte {
	var t c04Task
	var out c04Out
	_ = json.Unmarshal(task, &t)
	useVirtualClock()
	for _, in := range t.Inputs {
		dec := c04Decoders[in.Dec]
		size := len(in.Hex)/2 + len(in.Text)
		type res struct {
			err   error
			panic interface{}
			alloc uint64
		}
		ch := make(chan res, 1)
		go func() {
			var r res
			var m0, m1 runtime.MemStats
			runtime.ReadMemStats(&m0)
			func() {
				defer func() { r.panic = recover() }()
				r.err = dec(in)
			}()
			runtime.ReadMemStats(&m1)
			r.alloc = m1.TotalAlloc - m0.TotalAlloc
			ch <- r
		}()
		select {
		case r := <-ch:
			out.Done++
			if r.err != nil {
				out.Errors++
			} else {
				out.Accepted++
			}
			switch {
			case r.panic != nil:
				out.Viol = append(out.Viol, schedViol{Key: "panic:" + in.Dec + ":" + mutClass(in.Mut), Desc: fmt.Sprintf("%s decoder panicked on %s: %v", in.Dec, in.Mut, r.panic), Prefix: nil})
				out.Viol[len(out.Viol)-1].Desc += " input=" + c04Short(in)
			case r.alloc > c04Budget(in.Dec)+64*uint64(size):
				out.Viol = append(out.Viol, schedViol{Key: "allocation:" + in.Dec + ":" + mutClass(in.Mut), Desc: fmt.Sprintf("%s decoder allocated %d bytes for an input of %d bytes (%s) input=%s", in.Dec, r.alloc, size, in.Mut, c04Short(in))})
			}
		case <-time.After(c04Watchdog):
			out.Viol = append(out.Viol, schedViol{Key: "hang:" + in.Dec + ":" + mutClass(in.Mut), Desc: fmt.Sprintf("%s decoder did not return within %v on %s input=%s", in.Dec, c04Watchdog, in.Mut, c04Short(in))})
			out.Poisoned = true
			return mustJSON(out)
		}
		if len(out.Viol) > 40 {
			break
		}
	}
	return mustJSON(out)
}

func c04Short(in c04Input) string {
	s := in.Hex + in.Text
	if in.Dec == "tcpcl-sender-mru" {
		return fmt.Sprintf("segment MRU %d", in.N)
	}
	if len(s) > 160 {
		s = s[:160] + "..."
	}
	return s
}

// c04MutateCBOR: every length/count head set to every boundary value, truncation at every offset, every byte x 12 substitutions.
func c04MutateCBOR(dec string, enc []byte, open func(*ref.Node), thorough bool) []c04Input {
	var out []c04Input
	add := func(m string, b []byte) { out = append(out, c04Input{Dec: dec, Hex: hex.EncodeToString(b), Mut: m}) }
	add("valid", enc)
	parse := func() *ref.Node {
		t, err := ref.ParseTree(enc)
		if err != nil {
			return nil
		}
		if open != nil {
			open(t)
		}
		return t
	}
	if t := parse(); t != nil {
		cnt := 0
		t.WalkNodes(func(*ref.Node) { cnt++ })
		for k := 0; k < cnt; k++ {
			for _, bv := range c04Bounds {
				tt := parse()
				i, applied := 0, false
				tt.WalkNodes(func(n *ref.Node) {
					if i == k && (n.Major == 2 || n.Major == 3 || n.Major == 4 || n.Major == 5) && !n.Indef {
						v := bv
						n.Lie = &v
						applied = true
					}
					i++
				})
				if applied {
					m := tt.Emit(nil)
					add(fmt.Sprintf("length%d=%d", k, bv), m)
					if thorough {
						// pairs: the length deviation combined with a truncation at every third offset
						for cut := 1; cut < len(m); cut += 3 {
							add(fmt.Sprintf("length%d=%d+truncate@%d", k, bv, cut), m[:cut])
						}
					}
				}
			}
		}
	}
	for cut := 0; cut < len(enc); cut++ {
		add(fmt.Sprintf("truncate@%d", cut), enc[:cut])
	}
	subs := []byte{0x00, 0xff, 0x1f, 0x3f, 0x5f, 0x7f, 0x9f, 0xbf, 0xdf, 0xfb}
	stride := 1
	for i := 0; i < len(enc); i += stride {
		for _, sb := range append(subs, enc[i]+1, enc[i]-1) {
			if sb == enc[i] {
				continue
			}
			m := append([]byte(nil), enc...)
			m[i] = sb
			add(fmt.Sprintf("byte%d=%#x", i, sb), m)
		}
	}
	return out
}

// c04MutateFixed: big-endian length fields at known offsets set to the boundary values, truncation, byte substitutions.
func c04MutateFixed(dec string, enc []byte, fields [][2]int, thorough bool) []c04Input {
	var out []c04Input
	add := func(m string, b []byte) { out = append(out, c04Input{Dec: dec, Hex: hex.EncodeToString(b), Mut: m}) }
	add("valid", enc)
	for fi, f := range fields {
		off, w := f[0], f[1]
		for _, bv := range c04Bounds {
			m := append([]byte(nil), enc...)
			v := bv
			if w < 8 && v >= 1<<(8*uint(w)) {
				v = 1<<(8*uint(w)) - 1
			}
			for i := 0; i < w; i++ {
				m[off+i] = byte(v >> (8 * uint(w-1-i)))
			}
			add(fmt.Sprintf("length-field%d=%d", fi, v), m)
		}
	}
	for cut := 0; cut < len(enc); cut++ {
		add(fmt.Sprintf("truncate@%d", cut), enc[:cut])
	}
	for i := range enc {
		for _, sb := range []byte{0x00, 0xff, 0x7f, 0x80, enc[i] + 1, enc[i] - 1} {
			if sb != enc[i] {
				m := append([]byte(nil), enc...)
				m[i] = sb
				add(fmt.Sprintf("byte%d=%#x", i, sb), m)
			}
		}
	}
	return out
}

func c04Corpus(thorough bool) []c04Input {
	var all []c04Input
	openBlocks := func(t *ref.Node) {
		for i, blk := range t.Kids {
			if i > 0 && blk.Major == 4 && len(blk.Kids) >= 5 && blk.Kids[4].Major == 2 {
				_ = blk.Kids[4].Open()
			}
		}
	}
	// bundles with every block type
	kinds := gen.ExtKinds()
	specs := []gen.Spec{}
	base := gen.Spec{Dst: "dtn://dst/", Src: "dtn://src/", Rpt: "ipn:1.2", PCRC: 2, Time: DtnNow(), Lifetime: 3600000, PayLen: 6, PayCRC: 1}
	for i := 0; i < len(kinds); i += 2 {
		s := base
		s.Ext = []gen.BSpec{kinds[i]}
		if i+1 < len(kinds) && kinds[i+1].Kind != kinds[i].Kind {
			s.Ext = append(s.Ext, kinds[i+1])
		}
		s.Seq = uint64(i)
		specs = append(specs, s)
	}
	frag := base
	frag.Flags, frag.FragOff, frag.Total = 1, 3, 30
	specs = append(specs, frag)

	var bundleEncs [][]byte
	for _, s := range specs {
		b := s.Build()
		enc, _ := gen.Ser(&b)
		bundleEncs = append(bundleEncs, enc)
		all = append(all, c04MutateCBOR("bundle", enc, openBlocks, thorough)...)
	}
	// administrative record (status report, whole and fragment)
	for _, fr := range []bool{false, true} {
		ref0 := gen.Spec{Dst: "dtn://d/", Src: "dtn://s/", Rpt: "dtn://s/", PCRC: 2, Time: 1000, Seq: 5, Lifetime: 10, PayLen: 1, Flags: ref.FStatusTime}
		if fr {
			ref0.Flags |= 1
			ref0.FragOff, ref0.Total = 2, 20
		}
		sr := bpv7.NewStatusReport(ref0.Build(), bpv7.DeliveredBundle, bpv7.NoInformation, 4242)
		var buf bytes.Buffer
		_ = bpv7.GetAdministrativeRecordManager().WriteAdministrativeRecord(sr, &buf)
		all = append(all, c04MutateCBOR("admin-record", buf.Bytes(), nil, thorough)...)
	}
	// TCPCLv4 messages: length fields at fixed offsets
	type tm struct {
		m      vh.Msg
		fields [][2]int
	}
	for _, x := range []tm{
		{vh.Msg{Kind: "contact", A: 1}, nil},
		{vh.Msg{Kind: "sess_init", A: 30, B: 1 << 20, C: 1 << 30, S: "dtn://node/"}, [][2]int{{19, 2}, {21 + 11, 4}}},
		{vh.Msg{Kind: "sess_term", A: 1, B: 3}, nil},
		{vh.Msg{Kind: "xfer_segment", A: 3, B: 5, D: []byte("hello world")}, [][2]int{{10, 4}, {14, 8}}},
		{vh.Msg{Kind: "xfer_ack", A: 2, B: 5, C: 3}, nil},
		{vh.Msg{Kind: "xfer_refuse", A: 6, B: 5}, nil},
		{vh.Msg{Kind: "keepalive"}, nil},
		{vh.Msg{Kind: "reject", A: 2, B: 1}, nil},
	} {
		enc, _ := vh.Encode(x.m)
		all = append(all, c04MutateFixed("tcpcl-message", enc, x.fields, thorough)...)
	}
	// MTCP stream: keep-alive, frame header with boundary lengths, bundle
	{
		stream := append([]byte{0x40}, append(ref.AppendHead(nil, 2, uint64(len(bundleEncs[0])), 0), bundleEncs[0]...)...)
		stream = append(stream, 0x40)
		all = append(all, c04MutateFixed("mtcp-stream", stream, nil, thorough)...)
		for _, bv := range c04Bounds {
			h := ref.AppendHead(nil, 2, bv, 8)
			all = append(all, c04Input{Dec: "mtcp-stream", Hex: hex.EncodeToString(append(h, bundleEncs[0]...)), Mut: fmt.Sprintf("frame-length=%d", bv)})
			all = append(all, c04Input{Dec: "mtcp-stream", Hex: hex.EncodeToString(h), Mut: fmt.Sprintf("frame-length=%d-no-data", bv)})
		}
	}
	// BBC: a valid train as length-prefixed fragments, mutated
	{
		b := base.Build()
		train, _ := bbcTrain(b, 7, 40)
		var raw []byte
		for _, f := range train {
			fb := f.Bytes()
			raw = append(raw, byte(len(fb)))
			raw = append(raw, fb...)
		}
		all = append(all, c04MutateFixed("bbc-fragments", raw, nil, thorough)...)
	}
	// discovery announcements
	{
		data, _ := discovery.MarshalAnnouncements([]discovery.Announcement{{Type: cla.MTCP, Endpoint: gen.MustEID("dtn://n/"), Port: 4556}, {Type: cla.TCPCLv4, Endpoint: gen.MustEID("ipn:1.1"), Port: 1}})
		all = append(all, c04MutateCBOR("announcements", data, nil, thorough)...)
	}
	// WebSocket agent messages
	{
		b := base.Build()
		for _, w := range []agent.VerifWam{{Code: 0, Text: "some error"}, {Code: 1, Text: "dtn://n/app"}, {Code: 2, Bundle: &b}, {Code: 3, Text: "request"}, {Code: 4, Text: "request", Bytes: []byte{1, 2, 3}}} {
			enc, _ := agent.VerifWamEncode(w)
			all = append(all, c04MutateCBOR("wam", enc, nil, thorough)...)
		}
	}
	// REST build requests
	{
		mv := c02MapValues()
		var keys []string
		for k := range mv {
			keys = append(keys, k)
		}
		for _, k := range keys {
			for _, v := range mv[k] {
				m := map[string]interface{}{"source": "dtn://node/app", "destination": "dtn://d/", "creation_timestamp_now": true, "lifetime": "10m", "payload_block": "p"}
				m[k] = v
				body, _ := json.Marshal(map[string]interface{}{"uuid": "UUID", "arguments": m})
				all = append(all, c04Input{Dec: "rest-build", Text: string(body), Mut: "arg-" + k})
				delete(m, "payload_block")
				m[k] = v
				body, _ = json.Marshal(map[string]interface{}{"uuid": "UUID", "arguments": m})
				all = append(all, c04Input{Dec: "rest-build", Text: string(body), Mut: "arg-" + k + "-nopayload"})
			}
		}
		// every key with values of every JSON shape (empty list, nested lists, object, null, numbers, booleans)
		shapes := []interface{}{[]interface{}{}, []interface{}{[]interface{}{}}, []interface{}{1, "x", nil}, map[string]interface{}{}, map[string]interface{}{"a": []interface{}{}}, nil, "", 0, -1, 1e300, true, false}
		allKeys := append([]string{"bundle_ctrl_flags", "crc", "previous_node_block", "bundle_age_block", "hop_count_block", "status_report"}, keys...)
		seenKey := map[string]bool{}
		for _, k := range allKeys {
			if seenKey[k] {
				continue
			}
			seenKey[k] = true
			for si, v := range shapes {
				m := map[string]interface{}{"source": "dtn://node/app", "destination": "dtn://d/", "creation_timestamp_now": true, "lifetime": "10m", "payload_block": "p"}
				m[k] = v
				body, _ := json.Marshal(map[string]interface{}{"uuid": "UUID", "arguments": m})
				all = append(all, c04Input{Dec: "rest-build", Text: string(body), Mut: fmt.Sprintf("arg-%s-shape%d", k, si)})
			}
		}
		for _, body := range []string{``, `{`, `null`, `{"uuid":"UUID"}`, `{"uuid":"UUID","arguments":null}`, `{"uuid":"UUID","arguments":{"payload_block":{"a":[1,[2,[3]]]}}}`, `{"uuid":5,"arguments":7}`, `[]`} {
			all = append(all, c04Input{Dec: "rest-build", Text: body, Mut: "body"})
		}
	}
	// endpoint strings
	for _, s := range []string{"", ":", "dtn:", "dtn:none", "dtn://" + strings.Repeat("a", 70000) + "/", "ipn:" + strings.Repeat("9", 400) + ".1", "ipn:1." + strings.Repeat("0", 70000), strings.Repeat("x", 65536) + ":y", "dtn://n/" + strings.Repeat("/", 65536), "dtn://\x00/\xff", "ipn:-1.1", "ipn:1.1\x00"} {
		all = append(all, c04Input{Dec: "endpoint", Text: s, Mut: "string"})
	}
	// sender side: segment MRU declared by the peer
	for _, bv := range c04Bounds {
		all = append(all, c04Input{Dec: "tcpcl-sender-mru", N: bv, Mut: fmt.Sprintf("mru=%d", bv)})
	}
	return all
}

func runC04(r *ev.Run, thorough bool) int {
	useVirtualClock()
	all := c04Corpus(thorough)
	var tasks []c04Task
	per := 400
	var batch []c04Input
	flush := func() {
		if len(batch) > 0 {
			tasks = append(tasks, c04Task{Inputs: batch})
			batch = nil
		}
	}
	for i, in := range all {
		if in.Dec == "tcpcl-sender-mru" {
			tasks = append(tasks, c04Task{Inputs: []c04Input{in}}) // may kill or poison its worker: one per task
			continue
		}
		if len(batch) >= per || (len(batch) > 0 && batch[0].Dec != in.Dec) {
			flush()
		}
		batch = append(batch, all[i])
	}
	flush()
	var mu sync.Mutex
	done, errs, acc, mruOK := 0, 0, 0, 0
	perDec := map[string]int{}
	for _, in := range all {
		perDec[in.Dec]++
	}
	var retry []c04Task
	round := func(ts []c04Task, final bool) {
		raw := make([][]byte, len(ts))
		for i, t := range ts {
			raw[i] = mustJSON(t)
		}
		runPoolPoison("c04", 0, raw, func(i int, pr poolResult) {
			mu.Lock()
			defer mu.Unlock()
			if pr.Crashed {
				if !final && len(ts[i].Inputs) > 1 {
					// pinpoint: every input of the batch on its own
					for _, in := range ts[i].Inputs {
						retry = append(retry, c04Task{Inputs: []c04Input{in}})
					}
					return
				}
				in := ts[i].Inputs[0]
				key := "C04/process-died"
				if strings.Contains(pr.Stderr, "out of memory") {
					key = "C04/out-of-memory"
				} else if strings.Contains(pr.Stderr, "watchdog") {
					key = "C04/hang"
				}
				r.Violation(key+":"+in.Dec+":"+mutClass(in.Mut), "input", fmt.Sprintf("the process died while the %s decoder handled %s (input %s): %s", in.Dec, in.Mut, c04Short(in), lastLines(pr.Stderr, 6)), in)
				return
			}
			var o c04Out
			_ = json.Unmarshal(pr.Res, &o)
			done += o.Done
			errs += o.Errors
			acc += o.Accepted
			if len(ts[i].Inputs) == 1 && ts[i].Inputs[0].Dec == "tcpcl-sender-mru" {
				mruOK += o.Accepted
			}
			for _, v := range o.Viol {
				r.Violation("C04/"+v.Key, "input", v.Desc, map[string]string{"desc": v.Desc})
			}
		})
	}
	round(tasks, false)
	if len(retry) > 0 {
		r.Add("inputs_rerun_individually_after_a_worker_died", int64(len(retry)))
		round(retry, true)
	}
	for d, n := range perDec {
		r.Add("inputs_"+d, int64(n))
	}
	r.Add("decoded_with_error", int64(errs))
	r.Add("decoded_ok", int64(acc))
	r.Add("sends_completed_with_declared_mru", int64(mruOK))
	if mruOK == 0 {
		r.Violation("C04/vacuous", "none", "no transfer with a peer-declared segment MRU completed: the sender harness observed nothing", nil)
	}
	r.Sample(all[len(all)/3])
	r.Sample(all[len(all)/2])
	if done == 0 || errs == 0 || acc == 0 {
		r.Violation("C04/vacuous", "none", "no input decoded / none rejected / none accepted", nil)
	}
	return r.Finish(map[string]interface{}{
		"evaluations":         len(all),
		"distinct_nontrivial": errs,
		"rule":                fmt.Sprintf("10 decoders (bundle with every block type, administrative record, TCPCLv4 messages incl. contact header, MTCP frame stream, BBC fragment trains through the connector, discovery announcements, WebSocket-agent messages, REST build requests through the HTTP handler, endpoint strings, TCPCLv4 sender with a peer-declared segment MRU): for each valid corpus message every position where the reference tokenizer sees a length or count (or, for the fixed binary formats, every length field) x the 11 boundary values %v, truncation at every offset, every byte x ~12 substitutions; each case runs in a worker process with panic recovery, a %v watchdog and a TotalAlloc budget of 8 MiB + 64 bytes per input byte; non-trivial = inputs the decoder rejected (every input is distinct)", c04Bounds, c04Watchdog),
	}, []string{"arbitrary 64 KiB byte strings and coverage-guided mutation are outside this family: single deviations from valid messages (thorough: every length deviation also combined with truncations)", "decompression bombs through the BBC xz layer are not covered", "TotalAlloc is process-wide: cases run one at a time per worker"})
}

func replayC04(kind string, c json.RawMessage) (string, bool) {
	return "C04 cases are enumerated deterministically: re-run the check (the violating input is in the artefact)", false
}
