package checks

import (
	"fmt"

	"github.com/dtn7/dtn7-go/verif/ev"
	"github.com/dtn7/dtn7-go/verif/gen"
	"github.com/dtn7/dtn7-go/verif/ref"
)

func init() {
	All["C18"] = Check{Level: "model_checking", Run: runC18, Replay: nhReplayAny}
	nhChecks["c18"] = c18Def
}

const c18MaxL = 8

func c18Def() nhCheckDef {
	var scs []nhScenario
	for _, a := range []string{"spray", "binary_spray"} {
		for l := uint64(1); l <= c18MaxL; l++ {
			local := gen.Spec{Dst: "dtn://dest/x", Src: "dtn://node/app", Rpt: "dtn://node/app", PCRC: 2, Lifetime: 3600000, PayLen: 8, PaySeed: 1}
			foreign := gen.Spec{Dst: "dtn://dest/x", Src: "dtn://far/app", Rpt: "dtn://far/app", PCRC: 2, Lifetime: 3600000, PayLen: 8, PaySeed: 2}
			if a == "binary_spray" {
				foreign.Ext = []gen.BSpec{{Kind: "spray", N: []uint64{l}}} // received holding l copies
			}
			scs = append(scs, nhScenario{Cfg: nhConfig{Algo: a, SprayL: l}, Bundles: []nhBundle{{Spec: local, Local: true, Dest: "dest"}, {Spec: foreign, Dest: "dest"}}})
		}
	}
	// the sensor-mule wrapper around both variants: peers named sensor* are excluded by the wrapper after the wrapped
	// algorithm has selected them, and the copies set aside for them must come back
	for _, a := range []string{"spray", "binary_spray"} {
		l := uint64(4)
		local := gen.Spec{Dst: "dtn://dest/x", Src: "dtn://node/app", Rpt: "dtn://node/app", PCRC: 2, Lifetime: 3600000, PayLen: 8, PaySeed: 1}
		foreign := gen.Spec{Dst: "dtn://dest/x", Src: "dtn://far/app", Rpt: "dtn://far/app", PCRC: 2, Lifetime: 3600000, PayLen: 8, PaySeed: 2}
		if a == "binary_spray" {
			foreign.Ext = []gen.BSpec{{Kind: "spray", N: []uint64{l}}}
		}
		scs = append(scs, nhScenario{Cfg: nhConfig{Algo: "sensor-mule", MuleInner: a, SprayL: l}, Bundles: []nhBundle{{Spec: local, Local: true, Dest: "dest"}, {Spec: foreign, Dest: "dest"}}})
	}
	return nhCheckDef{Scenarios: scs, Oracle: c18Oracle}
}

func c18Alphabet(peers []string, gc string) []nhEvent {
	ev := []nhEvent{{Op: "submit", B: 0}, {Op: "receive", B: 1, P: "r1", Q: "r1"}, {Op: "retry"}, {Op: "up", P: "dest"}, {Op: "fail", P: "dest"}}
	for _, p := range peers {
		ev = append(ev, nhEvent{Op: "up", P: p}, nhEvent{Op: "fail", P: p}, nhEvent{Op: "ok", P: p})
	}
	ev = append(ev, nhEvent{Op: "down", P: peers[0]})
	// the algorithm's garbage-collection job: it may forget bundles that left the store, nothing else
	ev = append(ev, nhEvent{Op: "cron", N: gc})
	return ev
}

// c18Oracle: the copy budget is never exceeded and never leaks.
func c18Oracle(r *nhRun) (string, string) {
	algo := r.sc.Cfg.Algo
	if algo == "sensor-mule" {
		algo = r.sc.Cfg.MuleInner
	}
	L := r.sc.Cfg.SprayL
	for i, t := range r.tr {
		if !t.Accepted {
			continue
		}
		held := L
		if i == 1 && algo == "spray" {
			held = 1 // a bundle received under plain spray-and-wait is in its wait phase
		}
		dest := r.sc.Bundles[i].Dest
		// successful transmissions to peers other than the destination, and the copies announced with them
		var succ, announced uint64
		for _, st := range r.steps[t.EpochStep:] {
			for _, s := range st.Sends {
				if idOfSend(s) != r.idString(i) || s.Peer == dest {
					continue
				}
				rb, err := ref.Decode(s.Enc)
				if err != nil {
					return "undecodable-send", err.Error()
				}
				var ann uint64
				if blk := rb.Find(ref.TSpray); blk != nil {
					if it, terr := ref.Tokenize(blk.Data, 0, 0); terr == nil {
						ann = it.Val
					}
				}
				if algo == "binary_spray" {
					// announced + kept = held before, half rounded down is sent: checked on every send
					if blk := rb.Find(ref.TSpray); blk == nil {
						return "binary-spray-send-without-copy-count", fmt.Sprintf("b%d was sent to %s without a spray block", i, s.Peer)
					}
					if ann == 0 {
						return "binary-spray-announced-zero-copies", fmt.Sprintf("b%d was sent to non-destination %s announcing 0 copies", i, s.Peer)
					}
				}
				if s.OK {
					succ++
					announced += ann
				}
			}
		}
		copies, known := verifSprayCopies(r.n.core.VerifAlgorithm(), t.ID)
		name := fmt.Sprintf("b%d (L=%d, held %d)", i, L, held)
		if algo == "spray" {
			if held >= 1 && succ > held-1 {
				return "spray-budget-exceeded", fmt.Sprintf("%s: %d successful transmissions to non-destination peers, at most %d allowed", name, succ, held-1)
			}
			if known && copies+succ != held {
				return fmt.Sprintf("spray-copy-count-leak:%+d", int64(copies+succ)-int64(held)), fmt.Sprintf("%s: node keeps %d copies after %d successful transmissions (sum must stay %d): a failed transmission did not give its copy back, or a copy was counted twice", name, copies, succ, held)
			}
		} else {
			if known && copies+announced != held {
				return fmt.Sprintf("binary-spray-copies-not-conserved:%+d", int64(copies+announced)-int64(held)), fmt.Sprintf("%s: node keeps %d, successful transmissions announced %d in total; kept + announced must equal %d", name, copies, announced, held)
			}
			if held == 1 && succ > 0 {
				return "binary-spray-single-copy-forwarded", fmt.Sprintf("%s: a node holding a single copy transmitted to a non-destination peer", name)
			}
		}
	}
	// per-send binary split: announced = floor(held/2) is implied by conservation over all prefixes (checked in every state)
	return "", ""
}

func runC18(r *ev.Run, thorough bool) int {
	peers := []string{"r1", "r2", "r3"}
	ls := []int{1, 2, 3, 4}
	depth, budget := 3, 2500
	if thorough {
		peers = []string{"r1", "r2", "r3", "r4", "r5", "r6"}
		ls = []int{1, 2, 3, 4, 5, 6, 7, 8}
		depth, budget = 5, 100000
	}
	var plans []nhPlan
	gcJob := []string{"spray_and_wait_gc", "binary_spray_gc"}
	for ai := 0; ai < 2; ai++ {
		for _, l := range ls {
			si := ai*c18MaxL + (l - 1)
			plans = append(plans, nhPlan{Scenario: si, Alphabet: c18Alphabet(peers, gcJob[ai]), Depth: depth, Budget: budget})
			if !thorough && l%2 == 1 && l > 1 {
				continue // quick: the non-initial root for L = 1, 2, 4
			}
			plans = append(plans, nhPlan{Scenario: si, Root: []nhEvent{{Op: "up", P: "r1"}, {Op: "fail", P: "r1"}, {Op: "up", P: "r2"}}, Alphabet: c18Alphabet(peers, gcJob[ai]), Depth: depth, Budget: budget})
		}
	}
	for k := 0; k < 2; k++ {
		mp := []string{"sensor1", "sensor2", "r1"}
		plans = append(plans, nhPlan{Scenario: 2*c18MaxL + k, Alphabet: c18Alphabet(mp, gcJob[k]), Depth: depth, Budget: budget})
	}
	return nhRunPlans(r, "C18", "c18", plans,
		fmt.Sprintf("spray-and-wait and binary spray with budgets L in %v, relays %v plus the destination: BFS over submission, reception (binary: carrying L copies), peers up/down, send outcome switches and retry ticks from the initial state and from a root with a failing and a working relay; in every state: successful transmissions to non-destination peers <= L-1, copies kept + copies given away (spray: successes; binary: sum of announced copies parsed from the transmitted bundles) = copies held, a single-copy holder sends only to the destination", ls, peers),
		[]string{"the retained copy count is read through a read-only bridge into the algorithm's table", "E3: transmissions to 2 (thorough: 3) relays fail at the same moment: all schedules of Core.forward's per-peer goroutines up to a preemption bound (schedule points: the algorithm's RWMutex, store operations, the mock senders)"},
		func() int {
			bound, budget := 2, 1500
			if thorough {
				bound, budget = 3, 60000
			}
			n := nhSchedRun(r, "C18", nhConcArg{Algo: "spray", Mode: "failures", Peers: 2, L: 4}, bound, budget)
			n += nhSchedRun(r, "C18", nhConcArg{Algo: "binary_spray", Mode: "failures", Peers: 2, L: 4}, bound, budget)
			if thorough {
				n += nhSchedRun(r, "C18", nhConcArg{Algo: "spray", Mode: "failures", Peers: 3, L: 4}, 2, budget)
			}
			return n
		})
}
