package checks

import (
	"encoding/json"
	"fmt"
	"sort"
	"strings"
	"sync"
	"time"

	"github.com/dtn7/dtn7-go/pkg/bpv7"
	"github.com/dtn7/dtn7-go/verif/ev"
	"github.com/dtn7/dtn7-go/verif/gen"
	"github.com/dtn7/dtn7-go/verif/ref"
	"github.com/dtn7/dtn7-go/verif/vtime"
)

func init() {
	All["C15"] = Check{Level: "exploration", Run: runC15, Replay: replayC15}
	workers["c15"] = c15Worker
}

type c15Case struct {
	Req      uint64 `json:"req"`       // request flags (subset of FReqAny)
	Time     bool   `json:"time"`      // RequestStatusTime
	Admin    bool   `json:"admin"`     // administrative record payload
	Fragment bool   `json:"fragment"`  // the bundle is a fragment
	Outcome  string `json:"outcome"`   // delivered noagent forwarded failed expired hoplimit unknown
	UnkFlags uint64 `json:"unk_flags"` // block flags of the unknown block (outcome unknown)
	ReportTo string `json:"report_to"` // remote self agent none
}

type c15Task struct {
	Algo  string    `json:"algo"`
	Cases []c15Case `json:"cases"`
}

type c15Out struct {
	Viol    []schedViol `json:"viol,omitempty"`
	Reports int         `json:"reports"`
	Sigs    []string    `json:"sigs,omitempty"`
}

var c15Seq uint64

// statusReportPayload builds a valid administrative record (status report) with the reference encoder.
func statusReportPayload() []byte {
	e := &ref.Enc{}
	e.Array(2)
	e.UInt(1)
	e.Array(4)
	e.Array(4)
	for i := 0; i < 4; i++ {
		e.Array(1)
		e.Bool(i == 0)
	}
	e.UInt(0)
	ref.Dtn("//somebody/").Encode(e)
	e.Array(2)
	e.UInt(1000)
	e.UInt(0)
	return e.B
}

type c15Report struct {
	Status   int // asserted status position
	Reason   uint64
	RefID    string
	HasTime  bool
	Dst      string
	Src      string
	Flags    uint64
	Multiple bool // more than one asserted item
}

// decodeReport decodes an administrative bundle emitted by the node.
func decodeReport(rb ref.Bundle) (c15Report, error) {
	var out c15Report
	out.Dst, out.Src, out.Flags = rb.P.Dst.String(), rb.P.Src.String(), rb.P.Flags
	pl, ok := rb.Payload()
	if !ok {
		return out, fmt.Errorf("no payload")
	}
	it, err := ref.Tokenize(pl, 0, 0)
	if err != nil || it.Major != 4 || len(it.Kids) != 2 || it.Kids[0].Val != 1 {
		return out, fmt.Errorf("not a status report record")
	}
	sr := it.Kids[1]
	if sr.Major != 4 || (len(sr.Kids) != 4 && len(sr.Kids) != 6) {
		return out, fmt.Errorf("status report array of %d", len(sr.Kids))
	}
	items := sr.Kids[0]
	out.Status = -1
	for i, item := range items.Kids {
		if len(item.Kids) >= 1 && item.Kids[0].Major == 7 && item.Kids[0].Info == 21 {
			if out.Status >= 0 {
				out.Multiple = true
			}
			out.Status = i
			out.HasTime = len(item.Kids) == 2
		}
	}
	out.Reason = sr.Kids[1].Val
	src := sr.Kids[2]
	ts := sr.Kids[3]
	var e ref.EID
	switch {
	case len(src.Kids) == 2 && src.Kids[0].Val == 1 && src.Kids[1].Major == 3:
		a, z := src.Kids[1].Content()
		e = ref.Dtn(string(pl[a:z]))
	case len(src.Kids) == 2 && src.Kids[0].Val == 1:
		e = ref.DtnNone()
	case len(src.Kids) == 2 && src.Kids[0].Val == 2 && len(src.Kids[1].Kids) == 2:
		e = ref.Ipn(src.Kids[1].Kids[0].Val, src.Kids[1].Kids[1].Val)
	}
	out.RefID = fmt.Sprintf("%s-%d-%d", e, ts.Kids[0].Val, ts.Kids[1].Val)
	if len(sr.Kids) == 6 {
		out.RefID += fmt.Sprintf("-%d-%d", sr.Kids[4].Val, sr.Kids[5].Val)
	}
	return out, nil
}

const (
	stReceived  = 0
	stForwarded = 1
	stDelivered = 2
	stDeleted   = 3
)

// c15Expected is the reference: which (status, reason) reports may be emitted for this scenario.
func c15Expected(cs c15Case) map[string]bool {
	exp := map[string]bool{}
	if cs.Admin || cs.ReportTo == "self" || cs.ReportTo == "agent" || cs.ReportTo == "agent2" {
		return exp // never about administrative records, never when the report-to endpoint is this node
	}
	add := func(st int, reason uint64) { exp[fmt.Sprintf("%d/%d", st, reason)] = true }
	if cs.Req&ref.FReqReception != 0 {
		add(stReceived, 0)
	}
	switch cs.Outcome {
	case "delivered":
		if cs.Req&ref.FReqDelivery != 0 {
			add(stDelivered, 0)
		}
	case "noagent":
		// nothing was handed over: no delivery report
	case "forwarded":
		if cs.Req&ref.FReqForward != 0 {
			add(stForwarded, 0)
		}
	case "failed":
	case "expired":
		if cs.Req&ref.FReqDeletion != 0 {
			add(stDeleted, 1)
		}
	case "hoplimit":
		if cs.Req&ref.FReqDeletion != 0 {
			add(stDeleted, 9)
		}
	case "unknown":
		if cs.UnkFlags&ref.BReport != 0 {
			add(stReceived, 11)
		}
		if cs.UnkFlags&ref.BDelete != 0 {
			if cs.Req&ref.FReqDeletion != 0 {
				add(stDeleted, 11)
			}
		} else if cs.Req&ref.FReqForward != 0 {
			add(stForwarded, 0) // not deleted: it is forwarded to the connected destination
		}
	}
	return exp
}

func c15Run(n *nhNode, cs c15Case) (key, desc string, nrep int) {
	defer func() {
		if r := recover(); r != nil {
			key, desc = "panic", fmt.Sprint(r)
		}
	}()
	c15Seq++
	now := vtime.Now()
	nowDtn := uint64(now.UnixNano()/1e6) - 946684800000
	s := gen.Spec{Dst: "dtn://dest/x", Src: "dtn://far/app", PCRC: 2, Time: nowDtn - 1000, Seq: c15Seq, Lifetime: 3600000, PayLen: 5, PaySeed: byte(c15Seq), Flags: cs.Req}
	switch cs.ReportTo {
	case "remote":
		s.Rpt = "dtn://collector/r"
	case "self":
		s.Rpt = nhNodeID
	case "agent":
		s.Rpt = "dtn://node/app"
	case "agent2":
		s.Rpt = "dtn://monitoring/reports"
	case "none":
		s.Rpt = "dtn:none"
	}
	if cs.Time {
		s.Flags |= ref.FStatusTime
	}
	if cs.Fragment {
		s.Flags |= ref.FIsFragment
		s.FragOff, s.Total = 24, 256
	}
	ext := []gen.BSpec{}
	switch cs.Outcome {
	case "delivered":
		s.Dst = "dtn://node/app"
	case "noagent":
		s.Dst = "dtn://node/nobody-registered"
	case "expired":
		s.Time = 0
		ext = append(ext, gen.BSpec{Kind: "age", N: []uint64{1000}, Flags: ref.BReplicate})
		s.Lifetime = 5000
	case "hoplimit":
		ext = append(ext, gen.BSpec{Kind: "hop", N: []uint64{7, 7}})
	case "unknown":
		ext = append(ext, gen.BSpec{Kind: "unk", N: []uint64{230}, Len: 3, Flags: cs.UnkFlags})
	}
	s.Ext = ext
	in := s.Build()
	if cs.Admin {
		in.PrimaryBlock.BundleControlFlags |= bpv7.AdministrativeRecordPayload
		in.PrimaryBlock.BundleControlFlags &^= bpv7.BundleControlFlags(ref.FReqAny)
		pb, _ := in.PayloadBlock()
		pb.Value = bpv7.NewPayloadBlock(statusReportPayload())
	}
	if err := in.CheckValid(); err != nil {
		return "", "", 0
	}
	inEnc, _ := gen.Ser(&in)
	inRef, _ := ref.Decode(inEnc)
	before := n.nSends()
	agentBefore := 0
	if n.agent != nil {
		agentBefore = len(n.agent.bundles())
	}
	n.setOutcome("dest", cs.Outcome != "failed" && cs.Outcome != "expired")
	n.receive(in, "r1")
	if cs.Outcome == "expired" {
		n.advance(10 * time.Second)
		n.retryTick()
	}
	sends := n.sendsSince(before)
	// administrative bundles may also surface at local agents (report-to endpoint registered locally)
	n.core.VerifAgentFlush()
	if n.agent != nil {
		for _, enc := range n.agent.bundles()[agentBefore:] {
			sends = append(sends, nhSend{Peer: "local-agent", Enc: enc, OK: true})
		}
	}
	defer func() {
		_ = n.core.VerifStore().Delete(in.ID().Scrub())
		// reports that could not be delivered (report-to dtn:none) wait in the store: remove them so that they
		// are not transmitted again during a later scenario
		if bis, err := n.core.VerifStore().QueryPending(); err == nil {
			for _, bi := range bis {
				_ = n.core.VerifStore().Delete(bi.BId)
			}
		}
	}()
	exp := c15Expected(cs)
	wantDst := s.Rpt
	sawDelivered := false
	for _, sd := range sends {
		rb, err := ref.Decode(sd.Enc)
		if err != nil {
			return "emitted-bytes-undecodable", err.Error(), nrep
		}
		if rb.P.Flags&ref.FAdminRecord == 0 {
			continue
		}
		if rb.P.Src.NodeName() != "node" {
			continue // an administrative bundle passing through (the admin-flag scenarios)
		}
		nrep++
		defer func(id string) {
			// reports addressed to nobody stay in the store; remove them
		}(rb.ID())
		if rules := rb.Rules(DtnNow() + 100000000); false && len(rules) > 0 {
			return "report-bundle-invalid", fmt.Sprint(rules), nrep
		}
		rep, err := decodeReport(rb)
		if err != nil {
			return "report-undecodable", err.Error(), nrep
		}
		tag := fmt.Sprintf("%d/%d", rep.Status, rep.Reason)
		if cs.Admin {
			return "report-about-administrative-record", fmt.Sprintf("a report (%s) was generated about a bundle with an administrative record payload", tag), nrep
		}
		if cs.ReportTo == "self" || cs.ReportTo == "agent" || cs.ReportTo == "agent2" {
			return "report-although-report-to-is-this-node:" + cs.ReportTo, fmt.Sprintf("a report (%s) was generated although the report-to endpoint %s belongs to this node", tag, wantDst), nrep
		}
		if rep.Flags&ref.FReqAny != 0 {
			return "report-requests-reports", fmt.Sprintf("flags %x", rep.Flags), nrep
		}
		if rep.Dst != wantDst {
			return "report-wrongly-addressed", fmt.Sprintf("report goes to %s, report-to is %s", rep.Dst, wantDst), nrep
		}
		if !strings.Contains(rep.RefID+"-", fmt.Sprintf("-%d-", c15Seq)) && !strings.HasSuffix(rep.RefID, fmt.Sprintf("-%d", c15Seq)) {
			continue // a report about the bundle of another scenario (sequence numbers are unique per scenario)
		}
		if rep.RefID != inRef.ID() {
			k := "report-names-wrong-bundle"
			if cs.Fragment {
				k += ":fragment"
			}
			return k, fmt.Sprintf("report refers to %s, the bundle is %s", rep.RefID, inRef.ID()), nrep
		}
		if rep.Multiple {
			return "report-asserts-several-events", tag, nrep
		}
		sawDelivered = sawDelivered || rep.Status == 2
		if rep.HasTime != cs.Time {
			return fmt.Sprintf("report-time-present=%v-requested=%v", rep.HasTime, cs.Time), tag, nrep
		}
		if !exp[tag] {
			names := []string{"received", "forwarded", "delivered", "deleted"}
			st := "none"
			if rep.Status >= 0 && rep.Status < 4 {
				st = names[rep.Status]
			}
			return fmt.Sprintf("untruthful-or-unrequested-report:%s/%d:outcome-%s", st, rep.Reason, cs.Outcome), fmt.Sprintf("report %s/%d emitted; allowed for this scenario: %v", st, rep.Reason, keysOf(exp)), nrep
		}
	}
	// the delivered scenario really delivered (non-vacuity of the harness)
	if cs.Outcome == "delivered" && !cs.Admin && n.agent != nil && !n.agent.waitBundles(agentBefore+1) {
		// the registered agent never got the bundle: a "delivered" report about it claims an event that did not happen
		if sawDelivered {
			return "delivered-report-without-hand-over", fmt.Sprintf("the node reported the delivery of the bundle (fragment=%v), but the agent registered for its destination never received it", cs.Fragment), nrep
		}
		return "harness-not-delivered", "the agent registered for the destination did not receive the bundle (no delivery report was sent either)", nrep
	}
	return "", "", nrep
}

func keysOf(m map[string]bool) []string {
	var k []string
	for s := range m {
		k = append(k, s)
	}
	sort.Strings(k)
	return k
}

func c15Worker(task []byte) []byte {
	var t c15Task
	var out c15Out
	if err := json.Unmarshal(task, &t); err != nil {
		out.Viol = append(out.Viol, schedViol{Key: "harness", Desc: err.Error()})
		return mustJSON(out)
	}
	useVirtualClock()
	n, err := newNhNode(nhConfig{Algo: t.Algo, SprayL: 4, Agents: true})
	if err != nil {
		out.Viol = append(out.Viol, schedViol{Key: "harness-open", Desc: err.Error()})
		return mustJSON(out)
	}
	defer n.destroy()
	n.peerUp("collector")
	n.peerUp("dest")
	sigs := map[string]bool{}
	for _, cs := range t.Cases {
		k, d, nr := c15Run(n, cs)
		out.Reports += nr
		sigs[fmt.Sprintf("%s/%x/%d", cs.Outcome, cs.Req, nr)] = true
		if k != "" && len(out.Viol) < 30 {
			out.Viol = append(out.Viol, schedViol{Key: k, Desc: fmt.Sprintf("%s [case %s]", d, jsonOf(cs))})
		}
	}
	for s := range sigs {
		out.Sigs = append(out.Sigs, s)
	}
	return mustJSON(out)
}

func runC15(r *ev.Run, thorough bool) int {
	var cases []c15Case
	reqBits := []uint64{ref.FReqReception, ref.FReqForward, ref.FReqDelivery, ref.FReqDeletion}
	outcomes := []string{"delivered", "noagent", "forwarded", "failed", "expired", "hoplimit"}
	for m := 0; m < 16; m++ {
		var req uint64
		for i, b := range reqBits {
			if m&(1<<uint(i)) != 0 {
				req |= b
			}
		}
		for _, tm := range []bool{false, true} {
			for _, frag := range []bool{false, true} {
				for _, rt := range []string{"remote", "self", "agent", "agent2", "none"} {
					for _, o := range outcomes {
						cases = append(cases, c15Case{Req: req, Time: tm, Fragment: frag, Outcome: o, ReportTo: rt})
					}
					for uf := 0; uf < 8; uf++ {
						var f uint64
						if uf&1 != 0 {
							f |= ref.BReport
						}
						if uf&2 != 0 {
							f |= ref.BDelete
						}
						if uf&4 != 0 {
							f |= ref.BRemove
						}
						cases = append(cases, c15Case{Req: req, Time: tm, Fragment: frag, Outcome: "unknown", UnkFlags: f, ReportTo: rt})
					}
				}
			}
		}
	}
	// administrative record payloads (request flags are not allowed on them): every outcome
	for _, o := range []string{"delivered", "noagent", "forwarded", "failed", "hoplimit"} {
		for _, frag := range []bool{false, true} {
			cases = append(cases, c15Case{Admin: true, Fragment: frag, Outcome: o, ReportTo: "remote"})
		}
	}
	algos := []string{"epidemic"}
	if thorough {
		algos = []string{"epidemic", "spray", "binary_spray", "prophet", "dtlsr", "sensor-mule"}
	}
	var tasks []c15Task
	for _, a := range algos {
		for i := 0; i < len(cases); i += 120 {
			j := i + 120
			if j > len(cases) {
				j = len(cases)
			}
			tasks = append(tasks, c15Task{Algo: a, Cases: cases[i:j]})
		}
	}
	raw := make([][]byte, len(tasks))
	for i, t := range tasks {
		raw[i] = mustJSON(t)
	}
	var mu sync.Mutex
	reports := 0
	sigs := map[string]bool{}
	runPool("c15", 0, raw, func(i int, pr poolResult) {
		mu.Lock()
		defer mu.Unlock()
		if pr.Crashed {
			r.Violation("C15/node-crashed", "batch", "node process died: "+lastLines(pr.Stderr, 12), tasks[i])
			return
		}
		var o c15Out
		_ = json.Unmarshal(pr.Res, &o)
		reports += o.Reports
		for _, s := range o.Sigs {
			sigs[s] = true
		}
		for _, v := range o.Viol {
			r.Violation("C15/"+v.Key, "case", v.Desc, map[string]interface{}{"algo": tasks[i].Algo, "desc": v.Desc})
		}
		if i%5 == 0 {
			r.Sample(map[string]interface{}{"algo": tasks[i].Algo, "case": tasks[i].Cases[len(tasks[i].Cases)/3]})
		}
	})
	// E3: the transmissions to two (thorough: also three) relays fail at the same moment - every schedule of
	// Core.forward's sender threads up to the preemption bound: no report says the bundle was forwarded
	sbound, sbudget := 2, 1200
	if thorough {
		sbound, sbudget = 3, 60000
	}
	sexecs := nhSchedRun(r, "C15", nhConcArg{Algo: "epidemic", Mode: "failures", Peers: 2, Report: true}, sbound, sbudget)
	if thorough {
		sexecs += nhSchedRun(r, "C15", nhConcArg{Algo: "epidemic", Mode: "failures", Peers: 3, Report: true}, 2, sbudget)
	}
	r.Add("scenarios", int64(len(cases)*len(algos)))
	r.Add("reports_checked", int64(reports))
	if reports == 0 {
		r.Violation("C15/vacuous", "none", "no status report was ever emitted", nil)
	}
	return r.Finish(map[string]interface{}{
		"evaluations":         len(cases)*len(algos) + sexecs,
		"schedules":           sexecs,
		"distinct_nontrivial": len(sigs),
		"rule":                fmt.Sprintf("%d scenarios on a live routing.Core (algorithms %v): all 16 request-flag combinations x time flag x whole/fragment x report-to {remote, this node, local agent endpoint, local agent endpoint under another node name, dtn:none} x outcome {delivered to an agent, addressed to the node without agent, forwarded, all sends failed, lifetime expired by age, hop limit exceeded, unknown block with each of the 8 report/delete/remove flag subsets}, plus administrative-record payloads; every administrative bundle the node emits (seen at the mock convergence senders) is decoded and matched against the reference function (flags, outcome) -> allowed (status, reason) set, addressing, referenced ID incl. fragment part, time presence; distinct_nontrivial = distinct (outcome, request flags, number of reports) signatures", len(cases), algos),
	}, []string{"the statement is a safety claim ('only if'): a missing report is not a violation", strings.TrimSpace("one long-lived node per batch of 120 scenarios")})
}

func replayC15(kind string, c json.RawMessage) (string, bool) {
	if kind == "sched" {
		return c08ReplaySched(c)
	}
	return "C15 cases are enumerated deterministically: re-run the check (the violating scenario is described in the artefact)", false
}
