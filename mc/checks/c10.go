package checks

import (
	"bytes"
	"encoding/json"
	"fmt"
	"os"
	"path/filepath"
	"sort"
	"sync"
	"sync/atomic"

	"github.com/dtn7/dtn7-go/pkg/bpv7"
	"github.com/dtn7/dtn7-go/pkg/storage"
	"github.com/dtn7/dtn7-go/verif/ev"
	"github.com/dtn7/dtn7-go/verif/gen"
	"github.com/dtn7/dtn7-go/verif/par"
	"github.com/dtn7/dtn7-go/verif/ref"
)

func init() {
	All["C10"] = Check{Level: "exploration", Run: runC10, Replay: replayC10}
}

// c10Piece is one fragment of the pool, addressed reproducibly: Path[0] is the
// MTU of the first-level fragmentation and the index of the fragment in it;
// Path[1] (optional) the same for the second level.
type c10Piece struct {
	MTU1, Idx1 int
	MTU2, Idx2 int // MTU2 == 0: first-level fragment
}

type c10Case struct {
	Spec  gen.Spec   `json:"spec"`
	Pool  []c10Piece `json:"pool"`  // the pieces handed to reassembly, in this order
	Store bool       `json:"store"` // also through storage.Store
}

func pieceBundle(b bpv7.Bundle, p c10Piece) (bpv7.Bundle, error) {
	fs, err := b.Fragment(p.MTU1)
	if err != nil || p.Idx1 >= len(fs) {
		return bpv7.Bundle{}, fmt.Errorf("first level mtu %d idx %d: %v (n=%d)", p.MTU1, p.Idx1, err, len(fs))
	}
	f := fs[p.Idx1]
	if p.MTU2 == 0 {
		return f, nil
	}
	fs2, err := f.Fragment(p.MTU2)
	if err != nil || p.Idx2 >= len(fs2) {
		return bpv7.Bundle{}, fmt.Errorf("second level mtu %d idx %d: %v (n=%d)", p.MTU2, p.Idx2, err, len(fs2))
	}
	return fs2[p.Idx2], nil
}

// trueRange derives the real position of a fragment's data inside the original
// payload from its content (payload byte i = i*7+seed is injective for i<256).
func trueRange(data []byte, seed byte, total int) (int, int, bool) {
	if len(data) == 0 {
		return 0, 0, false
	}
	for i := 0; i < total && i < 256; i++ {
		if byte(i*7)+seed == data[0] {
			for j := range data {
				if i+j >= total || byte((i+j)*7)+seed != data[j] {
					return 0, 0, false
				}
			}
			return i, i + len(data), true
		}
	}
	return 0, 0, false
}

func payloadOf(b *bpv7.Bundle) []byte {
	pb, err := b.PayloadBlock()
	if err != nil {
		return nil
	}
	return pb.Value.(*bpv7.PayloadBlock).Data()
}

type c10Pool struct {
	pieces  []c10Piece
	bundles []bpv7.Bundle
	lo, hi  []int // true ranges
}

// buildPool fragments the bundle with every MTU, keeps up to three distinct
// first-level fragmentations (smallest pieces, middle, two halves) and the
// second-level fragmentation of every first-level fragment with the smallest
// limit that splits it. It reports fragment-of-fragment offset defects.
func buildPool(r *ev.Run, spec gen.Spec, maxPool int) (pool c10Pool) {
	b := spec.Build()
	orig, _ := gen.Ser(&b)
	type fr struct {
		mtu int
		fs  []bpv7.Bundle
	}
	seen := map[string]bool{}
	var all []fr
	for mtu := 1; mtu < len(orig); mtu++ {
		bb := spec.Build()
		fs, err := bb.Fragment(mtu)
		if err != nil || len(fs) < 2 {
			continue
		}
		sig := ""
		for _, f := range fs {
			sig += fmt.Sprintf("%d+%d,", f.PrimaryBlock.FragmentOffset, len(payloadOf(&f)))
		}
		if seen[sig] {
			continue
		}
		seen[sig] = true
		all = append(all, fr{mtu, fs})
	}
	if len(all) == 0 {
		return pool
	}
	pick := []fr{all[0]}
	if len(all) > 2 {
		pick = append(pick, all[len(all)/2])
	}
	if len(all) > 1 {
		pick = append(pick, all[len(all)-1])
	}
	have := map[string]bool{}
	add := func(p c10Piece, f *bpv7.Bundle, second bool) {
		data := payloadOf(f)
		lo, hi, ok := trueRange(data, spec.PaySeed, spec.PayLen)
		if !ok {
			r.Violation("C10/fragment-data-not-from-original", "piece", fmt.Sprintf("fragment %+v carries data that is not a slice of the original payload", p), c10Case{Spec: spec, Pool: []c10Piece{p}})
			return
		}
		claimedOff, claimedTotal := int(f.PrimaryBlock.FragmentOffset), int(f.PrimaryBlock.TotalDataLength)
		if claimedOff != lo || claimedTotal != spec.PayLen {
			key := "C10/fragment-offsets"
			if second {
				key = "C10/refragment-offsets-not-relative-to-original"
			}
			r.Violation(key, "piece", fmt.Sprintf("fragment %+v holds payload bytes [%d,%d) of %d but declares offset %d total %d", p, lo, hi, spec.PayLen, claimedOff, claimedTotal), c10Case{Spec: spec, Pool: []c10Piece{p}})
			return
		}
		k := fmt.Sprintf("%d-%d", lo, hi)
		if have[k] || len(pool.pieces) >= maxPool {
			return
		}
		have[k] = true
		pool.pieces = append(pool.pieces, p)
		pool.bundles = append(pool.bundles, *f)
		pool.lo = append(pool.lo, lo)
		pool.hi = append(pool.hi, hi)
	}
	// order of insertion: coarsest fragmentation, its second level, then the finer ones,
	// so that capped pools still mix levels
	coarse := pick[len(pick)-1]
	for i := range coarse.fs {
		add(c10Piece{MTU1: coarse.mtu, Idx1: i}, &coarse.fs[i], false)
	}
	defer func() {
		for pi := len(pick) - 2; pi >= 0; pi-- {
			f := pick[pi]
			for i := range f.fs {
				add(c10Piece{MTU1: f.mtu, Idx1: i}, &f.fs[i], false)
			}
		}
	}()
	// second level: re-fragment each fragment of the coarsest fragmentation
	for i := range coarse.fs {
		f := coarse.fs[i]
		fser, _ := gen.Ser(&f)
		for mtu := 1; mtu < len(fser); mtu++ {
			ff := f
			fs2, err := ff.Fragment(mtu)
			if err != nil || len(fs2) < 2 {
				continue
			}
			r.Add("second_level_fragmentations", 1)
			for j := range fs2 {
				add(c10Piece{MTU1: coarse.mtu, Idx1: i, MTU2: mtu, Idx2: j}, &fs2[j], true)
			}
			break
		}
	}
	return pool
}

var c10Seq uint64

type c10Stats struct {
	reasm, covered, uncovered, storeRuns int64
}

// c10Check runs reassembly on the given ordered pieces and compares with the
// coverage computed from the true ranges.
func c10Check(spec gen.Spec, pieces []c10Piece, pre []bpv7.Bundle, st *c10Stats, store *storage.Store) (key, desc string) {
	b := spec.Build()
	orig, _ := gen.Ser(&b)
	in := make([]bpv7.Bundle, len(pieces))
	cov := make([]bool, spec.PayLen)
	for i, p := range pieces {
		var f bpv7.Bundle
		if pre != nil {
			f = pre[i]
		} else {
			var err error
			if f, err = pieceBundle(b, p); err != nil {
				return "C10/harness-piece", err.Error()
			}
		}
		in[i] = f
		lo, hi, ok := trueRange(payloadOf(&f), spec.PaySeed, spec.PayLen)
		if !ok {
			return "C10/fragment-data-not-from-original", fmt.Sprintf("%+v", p)
		}
		for j := lo; j < hi; j++ {
			cov[j] = true
		}
	}
	covered := true
	for _, c := range cov {
		covered = covered && c
	}
	if st != nil {
		atomic.AddInt64(&st.reasm, 1)
		if covered {
			atomic.AddInt64(&st.covered, 1)
		} else {
			atomic.AddInt64(&st.uncovered, 1)
		}
	}
	shape := describePieces(spec, in)
	// IsBundleReassemblable (on a copy: it sorts in place)
	func() {
		defer func() {
			if r := recover(); r != nil {
				key, desc = "C10/panic-is-reassemblable", fmt.Sprintf("panic %v on %s", r, shape)
			}
		}()
		cp := append([]bpv7.Bundle(nil), in...)
		if got := bpv7.IsBundleReassemblable(cp); got != covered && key == "" {
			if covered {
				key, desc = "C10/covering-set-rejected", fmt.Sprintf("IsBundleReassemblable=false for covering set %s", shape)
			} else {
				key, desc = "C10/non-covering-set-accepted", fmt.Sprintf("IsBundleReassemblable=true for non-covering set %s", shape)
			}
		}
	}()
	if key != "" {
		return
	}
	func() {
		defer func() {
			if r := recover(); r != nil {
				key, desc = "C10/panic-reassemble", fmt.Sprintf("panic %v on %s", r, shape)
			}
		}()
		cp := append([]bpv7.Bundle(nil), in...)
		rb, err := bpv7.ReassembleFragments(cp)
		switch {
		case err != nil && covered:
			key, desc = "C10/covering-set-rejected", fmt.Sprintf("ReassembleFragments failed (%v) for covering set %s", err, shape)
		case err == nil && !covered:
			key, desc = "C10/non-covering-set-accepted", fmt.Sprintf("ReassembleFragments succeeded for non-covering set %s", shape)
		case err == nil:
			if !bytes.Equal(payloadOf(&rb), gen.Payload(spec.PayLen, spec.PaySeed)) {
				key, desc = "C10/wrong-payload", fmt.Sprintf("reassembled payload differs from original for %s", shape)
			} else if rs, serr := gen.Ser(&rb); serr != nil || !bytes.Equal(rs, orig) {
				key, desc = "C10/wrong-blocks", fmt.Sprintf("reassembled bundle differs from original (err %v) for %s", serr, shape)
			}
		}
	}()
	if key != "" || store == nil {
		return
	}
	// the same through the store
	if st != nil {
		atomic.AddInt64(&st.storeRuns, 1)
	}
	func() {
		defer func() {
			if r := recover(); r != nil {
				key, desc = "C10/panic-store", fmt.Sprintf("panic %v on %s", r, shape)
			}
		}()
		for i := range in {
			if err := store.Push(in[i]); err != nil {
				key, desc = "C10/store-push-failed", fmt.Sprintf("%v on %s", err, shape)
				return
			}
		}
		bi, err := store.QueryId(b.ID())
		if err != nil {
			key, desc = "C10/store-lost-item", err.Error()
			return
		}
		defer func() { _ = store.Delete(b.ID()) }()
		if got := bi.IsComplete(); got != covered {
			if covered {
				key, desc = "C10/store-covering-set-incomplete", fmt.Sprintf("BundleItem.IsComplete=false (parts %d) after pushing covering set %s", len(bi.Parts), shape)
			} else {
				key, desc = "C10/store-non-covering-complete", fmt.Sprintf("BundleItem.IsComplete=true after pushing %s", shape)
			}
			return
		}
		if covered {
			lb, err := bi.Load()
			if err != nil {
				key, desc = "C10/store-load-failed", err.Error()
			} else if ls, _ := gen.Ser(&lb); !bytes.Equal(ls, orig) {
				key, desc = "C10/store-load-differs", "loaded bundle differs from original for "+shape
			}
		}
	}()
	return
}

func describePieces(spec gen.Spec, in []bpv7.Bundle) string {
	s := fmt.Sprintf("payload %d: ", spec.PayLen)
	for _, f := range in {
		s += fmt.Sprintf("[%d,+%d) ", f.PrimaryBlock.FragmentOffset, len(payloadOf(&f)))
	}
	return s
}

// c10Class gives a narrow class to a violating set: contained / overlapping /
// same-offset / plain.
func c10Class(pool c10Pool, idx []int) string {
	overlap, contained, same := false, false, false
	for a := 0; a < len(idx); a++ {
		for b := 0; b < len(idx); b++ {
			if a == b {
				continue
			}
			la, ha, lb, hb := pool.lo[idx[a]], pool.hi[idx[a]], pool.lo[idx[b]], pool.hi[idx[b]]
			if la == lb && ha == hb {
				continue
			}
			if la == lb {
				same = true
			}
			if la <= lb && hb <= ha {
				contained = true
			} else if la < hb && lb < ha {
				overlap = true
			}
		}
	}
	switch {
	case same:
		return "same-offset-different-length"
	case contained:
		return "contained-fragment"
	case overlap:
		return "overlapping-fragments"
	}
	return "adjacent"
}

func runC10(r *ev.Run, thorough bool) int {
	useVirtualClock()
	maxPool, maxPay := 8, 12
	if thorough {
		maxPool, maxPay = 10, 32
	}
	base := gen.Spec{Dst: "dtn://dst/", Src: "dtn://src/", Rpt: "dtn://src/", PCRC: 2, Time: DtnNow(), Lifetime: 3600000, PaySeed: 1}
	withExt := base
	withExt.Ext = []gen.BSpec{{Kind: "hop", N: []uint64{32, 1}, Flags: ref.BReplicate, CRC: 1}, {Kind: "prev", S: []string{"dtn://p/"}}}
	withExt.PayCRC = 2
	ipn := base
	ipn.Dst, ipn.Src, ipn.Rpt = "ipn:2.1", "ipn:1.1", "dtn:none"
	ipn.PCRC = 1
	shapes := []gen.Spec{base, withExt, ipn}
	sizes := []int{2, 5, 9, 13, 17, 22, 30}
	if thorough {
		sizes = nil
		for n := 1; n <= maxPay; n++ {
			sizes = append(sizes, n)
		}
		sizes = append(sizes, 40, 100)
	}
	type job struct{ spec gen.Spec }
	var jobs []job
	for si, s := range shapes {
		for _, n := range sizes {
			s2 := s
			s2.PayLen = n
			s2.Seq = uint64(si*1000 + n)
			jobs = append(jobs, job{s2})
		}
	}
	var st c10Stats
	var pieceTotal, pools int64
	// one store per worker goroutine
	var storeMu sync.Mutex
	var stores []*storage.Store
	scratch := os.Getenv("VERIF_SCRATCH")
	if scratch == "" {
		scratch = os.TempDir()
	}
	getStore := func() *storage.Store {
		storeMu.Lock()
		defer storeMu.Unlock()
		if n := len(stores); n > 0 {
			s := stores[n-1]
			stores = stores[:n-1]
			return s
		}
		dir := filepath.Join(scratch, fmt.Sprintf("c10-store-%d", atomic.AddUint64(&c10Seq, 1)))
		s, err := storage.NewStore(dir)
		if err != nil {
			panic(err)
		}
		return s
	}
	putStore := func(s *storage.Store) { storeMu.Lock(); stores = append(stores, s); storeMu.Unlock() }
	poolsByJob := make([]c10Pool, len(jobs))
	par.For(len(jobs), func(ji int) {
		poolsByJob[ji] = buildPool(r, jobs[ji].spec, maxPool)
		if n := len(poolsByJob[ji].pieces); n > 0 {
			atomic.AddInt64(&pools, 1)
			atomic.AddInt64(&pieceTotal, int64(n))
		}
	})
	const chunks = 16
	par.For(len(jobs)*chunks, func(ti int) {
		ji, chunk := ti/chunks, ti%chunks
		spec := jobs[ji].spec
		pool := poolsByJob[ji]
		n := len(pool.pieces)
		if n == 0 {
			return
		}
		store := getStore()
		defer putStore(store)
		if ji%5 == 0 && chunk == 0 {
			r.Sample(map[string]interface{}{"payload": spec.PayLen, "pool_true_ranges": fmt.Sprint(pool.lo, pool.hi)})
		}
		for mask := 1; mask < 1<<uint(n); mask++ {
			if mask%chunks != chunk {
				continue
			}
			var idx []int
			for i := 0; i < n; i++ {
				if mask&(1<<uint(i)) != 0 {
					idx = append(idx, i)
				}
			}
			// with and without one duplicated element
			variants := [][]int{idx}
			if len(idx) <= 5 {
				variants = append(variants, append(append([]int(nil), idx...), idx[0]))
			}
			for _, v := range variants {
				var ords [][]int
				if len(v) <= 4 {
					ords = orderings(len(v))
				} else {
					// by true offset ascending, descending, and two rotations
					srt := append([]int(nil), v...)
					sort.Slice(srt, func(a, b int) bool { return pool.lo[srt[a]] < pool.lo[srt[b]] })
					asc := make([]int, len(v))
					for i := range asc {
						asc[i] = i
					}
					ords = [][]int{asc}
					rev := make([]int, len(v))
					for i := range rev {
						rev[i] = len(v) - 1 - i
					}
					ords = append(ords, rev)
					rot := make([]int, len(v))
					for i := range rot {
						rot[i] = (i + len(v)/2) % len(v)
					}
					ords = append(ords, rot)
				}
				for oi, ord := range ords {
					ps := make([]c10Piece, len(v))
					pre := make([]bpv7.Bundle, len(v))
					for i, j := range ord {
						ps[i] = pool.pieces[v[j]]
						pre[i] = pool.bundles[v[j]]
					}
					var sto *storage.Store
					if oi < 2 && len(v) == len(idx) { // store: first two orders, no literal duplicate needed (dedup is by id)
						sto = store
					}
					if k, d := c10Check(spec, ps, pre, &st, sto); k != "" {
						r.Violation(k+":"+c10Class(pool, v), "reassemble", d, c10Case{Spec: spec, Pool: ps, Store: sto != nil})
					}
				}
			}
		}
	})
	for _, s := range stores {
		_ = s.Close()
	}
	r.Add("reassembly_calls", st.reasm)
	r.Add("covering_sets", st.covered)
	r.Add("non_covering_sets", st.uncovered)
	r.Add("store_runs", st.storeRuns)
	r.Add("pools", pools)
	r.Add("pool_pieces", pieceTotal)
	if st.covered == 0 || st.uncovered == 0 {
		r.Violation("C10/vacuous", "none", "no covering or no non-covering set explored", nil)
	}
	return r.Finish(map[string]interface{}{
		"evaluations":         st.reasm,
		"distinct_nontrivial": st.covered + st.uncovered,
		"rule":                fmt.Sprintf("%d shapes x payload %v; pool = up to %d distinct fragments from three fragmentations with different limits and second-level fragmentation; ALL non-empty subsets of each pool (optionally one duplicate for subsets <=5), all orders for <=4 elements, ascending/descending/rotated above; each (subset, order) is a distinct case, non-trivial = reassembly and IsBundleReassemblable were run and compared with coverage computed from payload content; store path on the first two orders", len(shapes), sizes, maxPool),
	}, []string{"true position of a fragment is derived from its payload content (injective byte pattern), not from its header", "storage.Store reused across cases with distinct bundle IDs"})
}

func replayC10(kind string, c json.RawMessage) (string, bool) {
	useVirtualClock()
	var cs c10Case
	if err := json.Unmarshal(c, &cs); err != nil {
		return err.Error(), false
	}
	if kind == "piece" {
		b := cs.Spec.Build()
		f, err := pieceBundle(b, cs.Pool[0])
		if err != nil {
			return "piece no longer exists: " + err.Error(), false
		}
		lo, hi, ok := trueRange(payloadOf(&f), cs.Spec.PaySeed, cs.Spec.PayLen)
		if !ok || int(f.PrimaryBlock.FragmentOffset) != lo || int(f.PrimaryBlock.TotalDataLength) != cs.Spec.PayLen {
			return fmt.Sprintf("fragment holds [%d,%d) of %d but declares offset %d total %d", lo, hi, cs.Spec.PayLen, f.PrimaryBlock.FragmentOffset, f.PrimaryBlock.TotalDataLength), true
		}
		return "held", false
	}
	var store *storage.Store
	if cs.Store {
		dir, _ := os.MkdirTemp(os.Getenv("VERIF_SCRATCH"), "c10r")
		defer os.RemoveAll(dir)
		s, err := storage.NewStore(dir)
		if err != nil {
			return err.Error(), false
		}
		defer s.Close()
		store = s
	}
	k, d := c10Check(cs.Spec, cs.Pool, nil, nil, store)
	if k == "" {
		return "held", false
	}
	return k + ": " + d, true
}
