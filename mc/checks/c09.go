package checks

import (
	"bytes"
	"encoding/json"
	"fmt"
	"sync/atomic"

	"github.com/dtn7/dtn7-go/pkg/bpv7"
	"github.com/dtn7/dtn7-go/verif/ev"
	"github.com/dtn7/dtn7-go/verif/gen"
	"github.com/dtn7/dtn7-go/verif/par"
	"github.com/dtn7/dtn7-go/verif/ref"
)

func init() {
	All["C09"] = Check{Level: "exploration", Run: runC09, Replay: replayC09}
}

type c09Case struct {
	Spec gen.Spec `json:"spec"`
	MTU  int      `json:"mtu"`
}

// c09Shapes is the shape alphabet: block mixes with and without the replicate
// flag, CRC mixes, endpoint forms, must-not-fragment.
func c09Shapes(thorough bool) []gen.Spec {
	var out []gen.Spec
	base := gen.Spec{Dst: "dtn://dst/", Src: "dtn://src/", Rpt: "dtn://src/", PCRC: 2, Time: DtnNow(), Seq: 0, Lifetime: 3600000}
	exts := [][]gen.BSpec{
		nil,
		{{Kind: "hop", N: []uint64{64, 3}}},
		{{Kind: "hop", N: []uint64{64, 3}, Flags: ref.BReplicate}},
		{{Kind: "age", N: []uint64{1000}, Flags: ref.BReplicate}, {Kind: "prev", S: []string{"dtn://prev/"}}},
		{{Kind: "prev", S: []string{"ipn:5.7"}, Flags: ref.BReplicate}, {Kind: "unk", N: []uint64{200}, Len: 30}},
		{{Kind: "unk", N: []uint64{201}, Len: 5, Flags: ref.BReplicate | ref.BRemove}, {Kind: "spray", N: []uint64{8}}, {Kind: "hop", N: []uint64{255, 0}, Flags: ref.BReplicate}},
		{{Kind: "sig", Flags: ref.BReplicate | ref.BDelete}},
		{{Kind: "dtlsr", S: []string{"dtn://a/", "dtn://b/"}, N: []uint64{77, 0}}, {Kind: "prophet", S: []string{"dtn://c/"}, F: []uint64{0x3fe0000000000000}, Flags: ref.BReplicate}},
	}
	crcs := [][3]uint64{{2, 0, 0}, {1, 1, 1}, {2, 2, 2}, {1, 0, 2}, {2, 1, 0}}
	eids := [][3]string{
		{"dtn://dst/", "dtn://src/", "dtn://src/"},
		{"ipn:1.1", "ipn:18446744073709551615.18446744073709551615", "dtn:none"},
		{"dtn://d/~grp", "dtn://some-long.node_name/app/x", "ipn:23.42"},
	}
	for ei, e := range exts {
		for ci, c := range crcs {
			for di, d := range eids {
				if !thorough && (ei+ci+di)%3 != 0 && !(ei == 0 && ci == 0) {
					continue
				}
				s := base
				s.Dst, s.Src, s.Rpt = d[0], d[1], d[2]
				s.PCRC = c[0]
				s.PayCRC = c[2]
				s.Ext = nil
				for _, b := range e {
					b.CRC = c[1]
					s.Ext = append(s.Ext, b)
				}
				out = append(out, s)
			}
		}
	}
	// 3..7 replicate-flagged extension blocks (every fragment carries all of them; the per-fragment block list is
	// as long as it gets)
	many := []gen.BSpec{{Kind: "prev", S: []string{"dtn://prev/"}}, {Kind: "age", N: []uint64{9}}, {Kind: "hop", N: []uint64{64, 3}}, {Kind: "spray", N: []uint64{8}},
		{Kind: "unk", N: []uint64{210}, Len: 1}, {Kind: "unk", N: []uint64{211}, Len: 2}, {Kind: "unk", N: []uint64{212}, Len: 3}}
	for k := 3; k <= len(many); k++ {
		s := base
		for _, b := range many[:k] {
			b.Flags = ref.BReplicate
			b.CRC = uint64(k % 3)
			s.Ext = append(s.Ext, b)
		}
		out = append(out, s)
	}
	// must-not-fragment and zero-time shapes
	mnf := base
	mnf.Flags = ref.FMustNotFrag
	out = append(out, mnf)
	anon := base
	anon.Src, anon.Rpt = "dtn:none", "dtn:none"
	anon.Flags = ref.FMustNotFrag
	out = append(out, anon)
	zt := base
	zt.Time = 0
	zt.Ext = []gen.BSpec{{Kind: "age", N: []uint64{5}, Flags: ref.BReplicate}}
	out = append(out, zt)
	rq := base
	rq.Flags = ref.FReqDelivery | ref.FReqForward | ref.FStatusTime
	rq.Seq = 300
	out = append(out, rq)
	return out
}

type c09Stats struct {
	calls, errs, single, multi, fits, perms int64
}

// c09One checks one (bundle, mtu) pair; it returns a violation key and
// description ("" if the property held).
func c09One(spec gen.Spec, mtu int, st *c09Stats) (key, desc string) {
	defer func() {
		if r := recover(); r != nil {
			key, desc = "C09/panic", fmt.Sprintf("panic: %v", r)
		}
	}()
	b := spec.Build()
	orig, err := gen.Ser(&b)
	if err != nil {
		return "C09/harness-ser", "cannot serialise original: " + err.Error()
	}
	b2 := spec.Build() // Fragment may alias; keep a pristine copy
	frags, ferr := b2.Fragment(mtu)
	if st != nil {
		atomic.AddInt64(&st.calls, 1)
	}
	mnf := spec.Flags&ref.FMustNotFrag != 0
	fits := len(orig) <= mtu
	if mnf {
		if ferr == nil {
			return "C09/must-not-fragment-accepted", fmt.Sprintf("must-not-fragment bundle was fragmented into %d", len(frags))
		}
		return "", ""
	}
	if fits && st != nil {
		atomic.AddInt64(&st.fits, 1)
	}
	if ferr != nil {
		if st != nil {
			atomic.AddInt64(&st.errs, 1)
		}
		if fits {
			k := "C09/fitting-bundle-refused"
			if spec.PayLen == 0 {
				k = "C09/fitting-empty-payload-refused"
			}
			return k, fmt.Sprintf("bundle of %d bytes fits mtu %d but Fragment failed: %v", len(orig), mtu, ferr)
		}
		return "", ""
	}
	if len(frags) == 0 {
		k := "C09/empty-list"
		if spec.PayLen == 0 {
			k = "C09/empty-payload-empty-list"
		}
		return k, fmt.Sprintf("Fragment(mtu=%d) returned an empty list and no error (payload %d bytes, bundle %d bytes)", mtu, spec.PayLen, len(orig))
	}
	if fits {
		if len(frags) != 1 {
			return "C09/fitting-bundle-split", fmt.Sprintf("bundle of %d bytes fits mtu %d but was split into %d fragments", len(orig), mtu, len(frags))
		}
		s, err := gen.Ser(&frags[0])
		if err != nil || !bytes.Equal(s, orig) {
			return "C09/fitting-bundle-not-itself", fmt.Sprintf("fitting bundle returned changed (err %v)", err)
		}
		if st != nil {
			atomic.AddInt64(&st.single, 1)
		}
		return "", ""
	}
	if st != nil {
		atomic.AddInt64(&st.multi, 1)
	}
	// genuine fragments
	origRef, err := ref.Decode(orig)
	if err != nil {
		return "C09/harness-decode", err.Error()
	}
	type piece struct{ off, n uint64 }
	var pieces []piece
	var replic, all int
	for _, bl := range origRef.Blocks {
		if bl.Type == ref.TPayload {
			continue
		}
		all++
		if bl.Flags&ref.BReplicate != 0 {
			replic++
		}
	}
	for i := range frags {
		s, err := gen.Ser(&frags[i])
		if err != nil {
			return "C09/fragment-unserialisable", fmt.Sprintf("fragment %d: %v", i, err)
		}
		if len(s) > mtu {
			return "C09/fragment-exceeds-mtu", fmt.Sprintf("fragment %d of %d serialises to %d > mtu %d", i, len(frags), len(s), mtu)
		}
		if _, err := gen.Parse(s); err != nil {
			return "C09/fragment-rejected-by-parser", fmt.Sprintf("fragment %d: %v", i, err)
		}
		fr, err := ref.Decode(s)
		if err != nil {
			return "C09/fragment-malformed", fmt.Sprintf("fragment %d: %v", i, err)
		}
		if rules := fr.Rules(DtnNow()); len(rules) > 0 {
			return "C09/fragment-invalid:" + rules[0], fmt.Sprintf("fragment %d breaks %v", i, rules)
		}
		if bad, _ := ref.CRCMismatches(s); len(bad) > 0 {
			return "C09/fragment-bad-crc", fmt.Sprintf("fragment %d: %v", i, bad)
		}
		if !fr.P.IsFragment() {
			return "C09/fragment-flag-missing", fmt.Sprintf("fragment %d of %d lacks the fragment flag", i, len(frags))
		}
		if fr.P.Src != origRef.P.Src || fr.P.Dst != origRef.P.Dst || fr.P.Rpt != origRef.P.Rpt || fr.P.Time != origRef.P.Time ||
			fr.P.Seq != origRef.P.Seq || fr.P.Lifetime != origRef.P.Lifetime {
			return "C09/fragment-primary-differs", fmt.Sprintf("fragment %d primary differs", i)
		}
		if fr.P.Flags&^uint64(ref.FIsFragment) != origRef.P.Flags {
			return "C09/fragment-flags-differ", fmt.Sprintf("fragment %d flags %x vs %x", i, fr.P.Flags, origRef.P.Flags)
		}
		if fr.P.Total != uint64(spec.PayLen) {
			return "C09/total-length", fmt.Sprintf("fragment %d total %d, payload %d", i, fr.P.Total, spec.PayLen)
		}
		pl, ok := fr.Payload()
		if !ok {
			return "C09/fragment-no-payload", ""
		}
		pieces = append(pieces, piece{fr.P.FragOff, uint64(len(pl))})
		// extension blocks
		n, nrep := 0, 0
		for _, bl := range fr.Blocks {
			if bl.Type == ref.TPayload {
				continue
			}
			n++
			if bl.Flags&ref.BReplicate != 0 {
				nrep++
			}
			ob := origRef.Find(bl.Type)
			if ob == nil || !bytes.Equal(ob.Data, bl.Data) && !(bl.Type == ref.TDTLSR || bl.Type == ref.TProphet) || ob.Flags != bl.Flags {
				return "C09/extension-block-changed", fmt.Sprintf("fragment %d block type %d", i, bl.Type)
			}
		}
		if i == 0 && n != all {
			return "C09/first-fragment-missing-blocks", fmt.Sprintf("first fragment has %d of %d extension blocks", n, all)
		}
		if i > 0 && (n != replic || nrep != replic) {
			return "C09/replicated-blocks", fmt.Sprintf("fragment %d has %d extension blocks (%d replicate-flagged), expected exactly the %d replicate-flagged", i, n, nrep, replic)
		}
	}
	// partition
	var pos uint64
	for i, p := range pieces {
		if p.off != pos {
			return "C09/offsets-not-partition", fmt.Sprintf("fragment %d starts at %d, expected %d", i, p.off, pos)
		}
		if p.n == 0 {
			return "C09/empty-fragment", fmt.Sprintf("fragment %d carries no payload", i)
		}
		pos += p.n
	}
	if pos != uint64(spec.PayLen) {
		return "C09/offsets-not-partition", fmt.Sprintf("fragments cover %d of %d", pos, spec.PayLen)
	}
	// reassembly in every order (all permutations up to 4, rotations and reversals above)
	orders := orderings(len(frags))
	for _, ord := range orders {
		in := make([]bpv7.Bundle, len(frags))
		for i, j := range ord {
			in[i] = frags[j]
		}
		if st != nil {
			atomic.AddInt64(&st.perms, 1)
		}
		rb, err := bpv7.ReassembleFragments(in)
		if err != nil {
			return "C09/reassembly-failed", fmt.Sprintf("order %v: %v", ord, err)
		}
		rs, err := gen.Ser(&rb)
		if err != nil {
			return "C09/reassembly-unserialisable", err.Error()
		}
		if !bytes.Equal(rs, orig) {
			if gen.HasMultiMap(b) {
				continue
			}
			return "C09/reassembly-differs", fmt.Sprintf("order %v: reassembled bundle serialises differently (%d vs %d bytes)", ord, len(rs), len(orig))
		}
	}
	return "", ""
}

func orderings(n int) [][]int {
	if n <= 4 {
		var out [][]int
		idx := make([]int, n)
		for i := range idx {
			idx[i] = i
		}
		var rec func(k int)
		rec = func(k int) {
			if k == n {
				out = append(out, append([]int(nil), idx...))
				return
			}
			for i := k; i < n; i++ {
				idx[k], idx[i] = idx[i], idx[k]
				rec(k + 1)
				idx[k], idx[i] = idx[i], idx[k]
			}
		}
		rec(0)
		return out
	}
	var out [][]int
	for r := 0; r < n; r++ {
		a := make([]int, n)
		b := make([]int, n)
		for i := 0; i < n; i++ {
			a[i] = (i + r) % n
			b[n-1-i] = (i + r) % n
		}
		out = append(out, a, b)
	}
	// interleave: evens then odds
	c := make([]int, 0, n)
	for i := 0; i < n; i += 2 {
		c = append(c, i)
	}
	for i := 1; i < n; i += 2 {
		c = append(c, i)
	}
	out = append(out, c)
	return out
}

func runC09(r *ev.Run, thorough bool) int {
	useVirtualClock()
	shapes := c09Shapes(thorough)
	maxPay := 16
	if thorough {
		maxPay = 64
	}
	type job struct {
		spec gen.Spec
	}
	var jobs []job
	for _, s := range shapes {
		for p := 0; p <= maxPay; p++ {
			s2 := s
			s2.PayLen = p
			jobs = append(jobs, job{s2})
		}
	}
	// payloads around CBOR width boundaries: MTUs within +-6 of points where a header changes width
	big := []int{255, 256, 65535, 65536, 70000}
	if !thorough {
		big = []int{255, 256, 65536}
	}
	var st c09Stats
	var distinct int64
	_ = distinct
	par.For(len(jobs), func(i int) {
		spec := jobs[i].spec
		b := spec.Build()
		s, _ := gen.Ser(&b)
		nontrivial := false
		for mtu := 1; mtu <= len(s)+8; mtu++ {
			k, d := c09One(spec, mtu, &st)
			if k != "" {
				r.Violation(k, "fragment", d, c09Case{spec, mtu})
			}
			nontrivial = true
		}
		if nontrivial {
			atomic.AddInt64(&distinct, int64(len(s)+8))
		}
		if i%97 == 0 {
			r.Sample(c09Case{spec, len(s) / 2})
		}
	})
	// medium payloads (fragment offsets cross the 23/24 and 255/256 header-width boundaries): every MTU,
	// for shapes with each CRC mix (CRC-32 on the payload block leaves no slack in the size estimate)
	var bigJobs []c09Case
	med := []int{40, 300}
	if thorough {
		med = []int{33, 40, 100, 280, 300, 600}
	}
	for si, s := range shapes {
		if si%9 != 0 && !(s.PayCRC == 2 && si%4 == 1) && !thorough {
			continue
		}
		for _, p := range med {
			s2 := s
			s2.PayLen = p
			b := s2.Build()
			ser, _ := gen.Ser(&b)
			for m := 1; m <= len(ser)+8; m++ {
				bigJobs = append(bigJobs, c09Case{s2, m})
			}
		}
	}
	// large payloads
	bigShapes := []gen.Spec{shapes[0], shapes[len(shapes)/2], shapes[len(shapes)-1]}
	for _, s := range shapes {
		if s.PayCRC == 2 && s.PCRC == 2 {
			bigShapes = append(bigShapes, s)
			break
		}
	}
	for _, s := range bigShapes {
		for _, p := range big {
			s2 := s
			s2.PayLen = p
			b := s2.Build()
			ser, _ := gen.Ser(&b)
			L := len(ser)
			cands := map[int]bool{}
			for _, c := range []int{24, 256, 65536, L, L / 2, L / 3, 300, 1000} {
				for d := -6; d <= 6; d++ {
					if c+d >= 1 {
						cands[c+d] = true
					}
				}
			}
			// MTUs at which the payload length header of a fragment changes width
			for _, w := range []int{23, 24, 255, 256, 65535, 65536} {
				for d := 60; d <= 140; d += 4 {
					cands[w+d] = true
				}
			}
			for m := range cands {
				if p >= 65535 && m < 200 {
					continue // thousands of fragments x permutations: covered by the small sweep
				}
				bigJobs = append(bigJobs, c09Case{s2, m})
			}
		}
	}
	par.For(len(bigJobs), func(i int) {
		k, d := c09One(bigJobs[i].Spec, bigJobs[i].MTU, &st)
		if k != "" {
			r.Violation(k, "fragment", d, bigJobs[i])
		}
	})
	atomic.AddInt64(&distinct, int64(len(bigJobs)))
	nRefrag := c09Refragment(r)
	r.Add("refragmentations_checked", int64(nRefrag))
	r.Add("fragment_calls", st.calls)
	r.Add("returned_error", st.errs)
	r.Add("fitting_cases", st.fits)
	r.Add("returned_itself", st.single)
	r.Add("multi_fragment_results", st.multi)
	r.Add("reassembly_orders_checked", st.perms)
	if st.multi == 0 || st.errs == 0 || st.fits == 0 {
		r.Violation("C09/vacuous", "none", "harness explored no fragmenting / failing / fitting case", nil)
	}
	return r.Finish(map[string]interface{}{
		"evaluations":         st.calls,
		"distinct_nontrivial": st.multi + st.fits,
		"rule": fmt.Sprintf("%d bundle shapes x payload 0..%d x every MTU 1..len+8, plus payloads %v x MTUs around width boundaries; each (bundle,MTU) pair is distinct; non-trivial = the bundle fits (must come back as itself) or was really split into >=2 fragments (size, validity, partition, block placement and every reassembly order checked); MTUs too small for any fragment (error returned) are counted in evaluations only",
			len(shapes), maxPay, big),
		"shapes": len(shapes),
	}, []string{"reference CBOR tokenizer / CRC / validity predicate in /verif/mc/ref are correct", "orders: all permutations for <=4 fragments, rotations+reversals+even/odd interleave above"})
}

func replayC09(kind string, c json.RawMessage) (string, bool) {
	useVirtualClock()
	var cs c09Case
	if err := json.Unmarshal(c, &cs); err != nil {
		return err.Error(), false
	}
	k, d := c09One(cs.Spec, cs.MTU, nil)
	if k == "" {
		return "held", false
	}
	return k + ": " + d, true
}

// c09Refragment: the bundle handed to Fragment is itself a fragment (the first one, at offset 0, and later ones).
// Its sub-fragments are fragments of the ORIGINAL bundle: same total length, offsets that partition exactly the
// range the fragment covered; together with the untouched first-level fragments they reassemble to the original.
func c09Refragment(r *ev.Run) int {
	n := 0
	for _, pl := range []int{300, 1000} {
		for _, pcrc := range []uint64{0, 2} {
			sp := gen.Spec{Dst: "dtn://dst/x", Src: "dtn://src/app", Rpt: "dtn://src/app", PCRC: pcrc, PayCRC: 1, Time: DtnNow(), Lifetime: 3600000, PayLen: pl, PaySeed: 9,
				Ext: []gen.BSpec{{Kind: "hop", N: []uint64{20, 3}, Flags: ref.BReplicate}, {Kind: "prev", S: []string{"dtn://prev/"}}}}
			orig := sp.Build()
			origEnc, _ := gen.Ser(&orig)
			for _, mtu1 := range []int{len(origEnc)/2 + 20, len(origEnc) / 3} {
				level1, err := orig.Fragment(mtu1)
				if err != nil || len(level1) < 2 {
					continue
				}
				for fi := range level1 {
					fEnc, _ := gen.Ser(&level1[fi])
					fPay := payloadOf(&level1[fi])
					fOff := level1[fi].PrimaryBlock.FragmentOffset
					for _, mtu2 := range []int{len(fEnc) - 1, len(fEnc)*2/3 + 10} {
						sub, serr := level1[fi].Fragment(mtu2)
						if serr != nil {
							continue
						}
						n++
						c := map[string]interface{}{"payload": pl, "first_size_limit": mtu1, "refragmented_fragment": fi, "second_size_limit": mtu2}
						pos := fOff
						bad := ""
						for si := range sub {
							se, _ := gen.Ser(&sub[si])
							p := sub[si].PrimaryBlock
							switch {
							case len(se) > mtu2:
								bad = fmt.Sprintf("sub-fragment %d serialises to %d > %d", si, len(se), mtu2)
							case p.TotalDataLength != uint64(pl):
								bad = fmt.Sprintf("sub-fragment %d carries total length %d, the original payload has %d octets", si, p.TotalDataLength, pl)
							case p.FragmentOffset != pos:
								bad = fmt.Sprintf("sub-fragment %d starts at offset %d, expected %d (fragment covered [%d,%d))", si, p.FragmentOffset, pos, fOff, fOff+uint64(len(fPay)))
							}
							if bad != "" {
								break
							}
							pos += uint64(len(payloadOf(&sub[si])))
						}
						if bad == "" && pos != fOff+uint64(len(fPay)) {
							bad = fmt.Sprintf("sub-fragments cover [%d,%d), the fragment covered [%d,%d)", fOff, pos, fOff, fOff+uint64(len(fPay)))
						}
						if bad != "" {
							r.Violation("C09/refragmented-fragment:not-fragments-of-the-original", "refragment", bad, c)
							continue
						}
						var set []bpv7.Bundle
						for k := range level1 {
							if k != fi {
								set = append(set, level1[k])
							}
						}
						set = append(set, sub...)
						rb, rerr := bpv7.ReassembleFragments(set)
						if rerr != nil {
							r.Violation("C09/refragmented-fragment:reassembly-failed", "refragment", rerr.Error(), c)
							continue
						}
						if re, _ := gen.Ser(&rb); !bytes.Equal(re, origEnc) {
							r.Violation("C09/refragmented-fragment:reassembly-differs", "refragment", "the sub-fragments together with the other first-level fragments do not reassemble to the original bytes", c)
						}
					}
				}
			}
		}
	}
	return n
}
