package checks

import (
	"bytes"
	"encoding/hex"
	"encoding/json"
	"fmt"
	"io"
	"sync/atomic"

	"github.com/dtn7/dtn7-go/pkg/bpv7"
	"github.com/dtn7/dtn7-go/verif/ev"
	"github.com/dtn7/dtn7-go/verif/gen"
	"github.com/dtn7/dtn7-go/verif/par"
	"github.com/dtn7/dtn7-go/verif/ref"
)

func init() {
	All["C01"] = Check{Level: "exploration", Run: runC01, Replay: replayC01}
}

type c01Case struct {
	Spec *gen.Spec `json:"spec,omitempty"`
	Hex  string    `json:"hex,omitempty"` // mutated encoding (part b)
	Mut  string    `json:"mutation,omitempty"`
}

// c01RoundTrip is part (a): a valid bundle survives serialise/parse unchanged
// and re-serialises to the same bytes.
func c01RoundTrip(spec gen.Spec) (key, desc string, valid bool) {
	defer func() {
		if r := recover(); r != nil {
			key, desc = "C01/panic", fmt.Sprintf("panic: %v", r)
		}
	}()
	b := spec.Build()
	if err := b.CheckValid(); err != nil {
		return "", "", false
	}
	valid = true
	s1, err := gen.Ser(&b)
	if err != nil {
		return "C01/valid-bundle-unserialisable", err.Error(), true
	}
	b2, err := gen.Parse(s1)
	if err != nil {
		return "C01/own-encoding-rejected", fmt.Sprintf("parser rejects the serialiser's output: %v", err), true
	}
	pristine := spec.Build()
	if d := gen.DiffBundles(pristine, b2); len(d) > 0 {
		return "C01/roundtrip-field-differs:" + fieldClass(d[0]), fmt.Sprint(d), true
	}
	// the same bytes delivered in pieces (one octet, then 7 octets per Read call): a socket does that
	if len(s1) <= 70000 {
		for _, chunk := range []int{1, 7} {
			b3, cerr := bpv7.ParseBundle(&c01ChunkReader{data: s1, n: chunk})
			if cerr != nil {
				return "C01/own-encoding-rejected:chunked-read", fmt.Sprintf("the serialiser's output is rejected when it arrives %d octet(s) per Read: %v", chunk, cerr), true
			}
			if d := gen.DiffBundles(pristine, b3); len(d) > 0 {
				return "C01/roundtrip-field-differs:chunked-read:" + fieldClass(d[0]), fmt.Sprint(d), true
			}
		}
	}
	s2, err := gen.Ser(&b2)
	if err != nil {
		return "C01/reserialise-failed", err.Error(), true
	}
	if !bytes.Equal(s1, s2) && !gen.HasMultiMap(pristine) {
		return "C01/reserialise-not-idempotent", fmt.Sprintf("ser(parse(ser(b))) differs from ser(b): %d vs %d bytes", len(s2), len(s1)), true
	}
	// determinism: a second serialisation of the same value gives the same bytes
	s3, _ := gen.Ser(&b)
	if !bytes.Equal(s1, s3) && !gen.HasMultiMap(pristine) {
		return "C01/serialiser-not-deterministic", "two serialisations of one bundle differ", true
	}
	// payload block last on the wire
	rb, err := ref.Decode(s1)
	if err != nil {
		return "C01/encoding-not-wellformed-cbor", err.Error(), true
	}
	if n := len(rb.Blocks); n == 0 || rb.Blocks[n-1].Type != ref.TPayload {
		return "C01/payload-not-last", "", true
	}
	return "", "", true
}

func fieldClass(d string) string {
	if len(d) > 7 && d[:7] == "primary" {
		return "primary"
	}
	return "block"
}

// c01Accepted is part (b): any byte string the parser accepts re-serialises to
// bytes the parser accepts again, same ID, blocks, payload, payload last.
func c01Accepted(enc []byte) (key, desc string, accepted bool) {
	defer func() {
		if r := recover(); r != nil {
			key, desc = "C01/panic", fmt.Sprintf("panic: %v", r)
		}
	}()
	b, err := gen.Parse(enc)
	if err != nil {
		return "", "", false
	}
	accepted = true
	s, err := gen.Ser(&b)
	if err != nil {
		return "C01/accepted-but-unserialisable", fmt.Sprintf("parser accepted the bytes but the result cannot be serialised: %v", err), true
	}
	b2, err := gen.Parse(s)
	if err != nil {
		return "C01/reserialised-rejected", fmt.Sprintf("re-serialisation of an accepted bundle is rejected: %v", err), true
	}
	if b.ID().String() != b2.ID().String() {
		return "C01/id-changed", fmt.Sprintf("%v vs %v", b.ID(), b2.ID()), true
	}
	if d := gen.DiffBundles(b, b2); len(d) > 0 {
		return "C01/accepted-roundtrip-differs", fmt.Sprint(d), true
	}
	if n := len(b2.CanonicalBlocks); n == 0 || b2.CanonicalBlocks[n-1].TypeCode() != bpv7.ExtBlockTypePayloadBlock {
		return "C01/payload-not-last", "", true
	}
	rb, err := ref.Decode(s)
	if err != nil {
		return "C01/encoding-not-wellformed-cbor", err.Error(), true
	}
	if n := len(rb.Blocks); n == 0 || rb.Blocks[n-1].Type != ref.TPayload {
		return "C01/payload-not-last", "on the wire", true
	}
	return "", "", true
}

type c01Mut struct {
	name string
	enc  []byte
}

// c01Mutations produces every single structural deviation of one encoding.
func c01Mutations(enc []byte) []c01Mut {
	var out []c01Mut
	fresh := func() *ref.Node {
		t, err := ref.ParseBundleTree(enc, false)
		if err != nil {
			panic(err)
		}
		return t
	}
	emit := func(name string, t *ref.Node) {
		ref.FixCRCs(t)
		out = append(out, c01Mut{name, t.Emit(nil)})
	}
	// count nodes
	cnt := 0
	fresh().WalkNodes(func(*ref.Node) { cnt++ })
	// 1. every head in every wider form
	for k := 0; k < cnt; k++ {
		for _, w := range []int{1, 2, 4, 8} {
			t := fresh()
			i := 0
			applied := false
			t.WalkNodes(func(n *ref.Node) {
				if i == k && !n.Indef && n.Major != 7 {
					min := 0
					v := n.Val
					if n.Major == 2 || n.Major == 3 {
						v = uint64(len(n.Bytes))
						if n.Inner != nil {
							v = 24 // unknown here; only skip the in-byte form
						}
					} else if n.Major == 4 || n.Major == 5 {
						v = uint64(len(n.Kids))
					}
					switch {
					case v < 24:
						min = 0
					case v < 1<<8:
						min = 1
					case v < 1<<16:
						min = 2
					case v < 1<<32:
						min = 4
					default:
						min = 8
					}
					if w > min {
						n.Width = w
						applied = true
					}
				}
				i++
			})
			if applied {
				emit(fmt.Sprintf("head%d-width%d", k, w), t)
			}
		}
	}
	nb := len(fresh().Kids)
	// 2. adjacent canonical blocks swapped
	for i := 1; i+1 < nb; i++ {
		t := fresh()
		t.Kids[i], t.Kids[i+1] = t.Kids[i+1], t.Kids[i]
		emit(fmt.Sprintf("swap-blocks-%d-%d", i, i+1), t)
	}
	// 3. declared CRC type 0..4 with and without a CRC field, per block
	for i := 0; i < nb; i++ {
		for ct := uint64(0); ct <= 4; ct++ {
			for _, withField := range []bool{false, true} {
				t := fresh()
				blk := t.Kids[i]
				n := len(blk.Kids)
				has := (i == 0 && (n == 9 || n == 11)) || (i > 0 && n == 6)
				idx := 3
				if i == 0 {
					idx = 2
				}
				blk.Kids[idx].Val = ct
				if has && !withField {
					blk.Kids = blk.Kids[:n-1]
				} else if !has && withField {
					l := 4
					if ct == 1 {
						l = 2
					}
					blk.Kids = append(blk.Kids, ref.B(make([]byte, l)))
				}
				emit(fmt.Sprintf("block%d-crctype%d-field%v", i, ct, withField), t)
			}
		}
	}
	// 4. dtn:none carried as [1, n] with n != 0
	for _, nval := range []uint64{1, 23, 24, 1 << 32} {
		t := fresh()
		k := 0
		t.WalkNodes(func(n *ref.Node) {
			if n.Major == 4 && !n.Indef && len(n.Kids) == 2 && n.Kids[0].Major == 0 && n.Kids[0].Val == 1 && n.Kids[1].Major == 0 {
				n.Kids[1].Val = nval
				k++
			}
		})
		if k > 0 {
			emit(fmt.Sprintf("dtn-none-as-%d", nval), t)
		}
	}
	// 5. trailing bytes inside a CBOR-valued block
	for i := 1; i < nb; i++ {
		t := fresh()
		d := t.Kids[i].Kids[4]
		if d.Inner != nil {
			d.Trail = []byte{0x00}
			emit(fmt.Sprintf("block%d-trailing-byte", i), t)
			t2 := fresh()
			t2.Kids[i].Kids[4].Trail = []byte{0x82, 0x01}
			emit(fmt.Sprintf("block%d-trailing-truncated-item", i), t2)
		}
	}
	// 6. definite-length outer array
	{
		t := fresh()
		t.Indef = false
		emit("definite-outer-array", t)
	}
	// 7. unknown / zero / huge block numbers and unassigned flag bits
	for i := 1; i < nb; i++ {
		for _, num := range []uint64{0, 1, 2, 1 << 32} {
			t := fresh()
			t.Kids[i].Kids[1].Val = num
			emit(fmt.Sprintf("block%d-number%d", i, num), t)
		}
		t := fresh()
		t.Kids[i].Kids[2].Val |= 0x4000
		emit(fmt.Sprintf("block%d-unassigned-flag", i), t)
	}
	// 8. block type re-labelled (known <-> unknown)
	for i := 1; i < nb; i++ {
		for _, ty := range []uint64{ref.TPayload, ref.TPrevNode, ref.TAge, ref.THopCount, ref.TSpray, ref.TDTLSR, ref.TProphet, ref.TSig, 250} {
			t := fresh()
			t.Kids[i].Kids[0].Val = ty
			emit(fmt.Sprintf("block%d-type%d", i, ty), t)
		}
	}
	// 9. every unsigned integer anywhere (also inside CBOR-valued block data) set to 0, 1 and 2^64-1
	for k := 0; k < cnt; k++ {
		for _, nv := range []uint64{0, 1, 1<<64 - 1} {
			t := fresh()
			i := 0
			applied := false
			t.WalkNodes(func(n *ref.Node) {
				if i == k && n.Major == 0 && n.Val != nv {
					n.Val = nv
					applied = true
				}
				i++
			})
			if applied {
				emit(fmt.Sprintf("uint%d-set-%d", k, nv), t)
			}
		}
	}
	return out
}

func c01CoreSpecs(thorough bool) []gen.Spec {
	def, dims := gen.Dims(DtnNow())
	var out []gen.Spec
	seenShape := map[string]bool{}
	gen.Assignments(dims, 1, func(vals []int) {
		for i, v := range vals { // skip the giant payloads and the 512-flag sweep for the mutation core set
			if dims[i].Name == "paylen" && v >= 7 {
				return
			}
			if dims[i].Name == "flags" && v%37 != 0 {
				return
			}
		}
		s := gen.Make(def, dims, vals)
		k := jsonOf(s)
		if !seenShape[k] {
			seenShape[k] = true
			out = append(out, s)
		}
	})
	// a few combined shapes
	kinds := gen.ExtKinds()
	for i := 0; i+2 < len(kinds); i += 3 {
		s := def
		s.Ext = []gen.BSpec{kinds[i], kinds[i+2]}
		if s.Ext[0].Kind == s.Ext[1].Kind {
			s.Ext = s.Ext[:1]
		}
		for j := range s.Ext {
			s.Ext[j].CRC = uint64(1 + j%2)
		}
		s.PayCRC = 1
		s.Src = "dtn:none"
		s.Flags = ref.FMustNotFrag
		out = append(out, s)
	}
	if !thorough && len(out) > 90 {
		// keep every third of the single-dimension shapes in the quick tier
		var q []gen.Spec
		for i, s := range out {
			if i%2 == 0 || i >= len(out)-6 {
				q = append(q, s)
			}
		}
		out = q
	}
	return out
}

func runC01(r *ev.Run, thorough bool) int {
	useVirtualClock()
	def, dims := gen.Dims(DtnNow())
	d := 2
	// part (a)
	var specs []gen.Spec
	gen.Assignments(dims, d, func(vals []int) {
		nz, big := 0, false
		for i, v := range vals {
			if v != 0 {
				nz++
				if dims[i].Name == "paylen" && v >= 7 {
					big = true
				}
			}
		}
		// the large payloads are combined with every single other dimension in the thorough tier only;
		// quick: with the CRC, flag and block-presence dimensions of interest via a stride
		if big && nz == 2 && !thorough {
			h := 0
			for i, v := range vals {
				h = h*31 + i*7 + v
			}
			if h%11 != 0 {
				return
			}
		}
		specs = append(specs, gen.Make(def, dims, vals))
	})
	if thorough {
		// third level over reduced domains: every dimension restricted to its first 5 non-default values
		red := make([]gen.Dim, len(dims))
		copy(red, dims)
		for i := range red {
			if red[i].N > 6 {
				red[i].N = 6
			}
		}
		gen.Assignments(red, 3, func(vals []int) {
			nz := 0
			for _, v := range vals {
				if v != 0 {
					nz++
				}
			}
			if nz == 3 {
				specs = append(specs, gen.Make(def, red, vals))
			}
		})
	}
	var nValid, nInvalid int64
	par.For(len(specs), func(i int) {
		k, dsc, valid := c01RoundTrip(specs[i])
		if valid {
			atomic.AddInt64(&nValid, 1)
		} else {
			atomic.AddInt64(&nInvalid, 1)
		}
		if k != "" {
			sp := specs[i]
			r.Violation(k, "roundtrip", dsc, c01Case{Spec: &sp})
		}
		if i%9973 == 0 {
			sp := specs[i]
			r.Sample(c01Case{Spec: &sp})
		}
	})
	r.Add("roundtrip_specs", int64(len(specs)))
	r.Add("roundtrip_valid", nValid)
	r.Add("roundtrip_skipped_invalid", nInvalid)

	// part (b)
	core := c01CoreSpecs(thorough)
	var nMut, nAcc, nAccNonCanon int64
	par.For(len(core), func(i int) {
		b := core[i].Build()
		if b.CheckValid() != nil {
			return
		}
		enc, err := gen.Ser(&b)
		if err != nil {
			return
		}
		if _, terr := ref.ParseBundleTree(enc, false); terr != nil {
			// the implementation's serialisation of a bundle it considers valid is not well-formed CBOR / not a bundle
			sp := core[i]
			r.Violation("C01/serialised-valid-bundle-malformed", "roundtrip", fmt.Sprintf("the serialisation of a valid bundle cannot be delimited by the reference tokenizer: %v", terr), c01Case{Spec: &sp})
			return
		}
		muts := c01Mutations(enc)
		if thorough {
			// pairs: second-level deviations of every accepted first-level deviation (bounded per bundle)
			n := len(muts)
			for j := 0; j < n && len(muts) < n+12000; j++ {
				if _, err := gen.Parse(muts[j].enc); err == nil && !bytes.Equal(muts[j].enc, enc) {
					func() {
						defer func() { _ = recover() }()
						for _, m2 := range c01Mutations(muts[j].enc) {
							muts = append(muts, c01Mut{muts[j].name + "+" + m2.name, m2.enc})
						}
					}()
				}
			}
		}
		for mi, m := range muts {
			if mi%16 == 15 {
				// the parser carries no state either: after whatever was parsed (and mostly rejected) before, the
				// original still parses to a bundle that serialises to the original bytes
				if pb, perr := gen.Parse(enc); perr != nil {
					sp := core[i]
					r.Violation("C01/parse-depends-on-earlier-input", "roundtrip", fmt.Sprintf("a valid encoding is rejected after other inputs were parsed: %v", perr), c01Case{Spec: &sp})
					break
				} else if again, _ := gen.Ser(&pb); !bytes.Equal(again, enc) && !gen.HasMultiMap(pb) {
					sp := core[i]
					r.Violation("C01/parse-depends-on-earlier-input", "roundtrip", "a valid encoding parses to a different bundle after other inputs were parsed", c01Case{Spec: &sp})
					break
				}
			}
			atomic.AddInt64(&nMut, 1)
			k, dsc, acc := c01Accepted(m.enc)
			if acc {
				atomic.AddInt64(&nAcc, 1)
				if !bytes.Equal(m.enc, enc) {
					atomic.AddInt64(&nAccNonCanon, 1)
				}
			}
			if k != "" {
				r.Violation(k+":"+mutClass(m.name), "accepted", dsc+" [mutation "+m.name+"]", c01Case{Hex: hex.EncodeToString(m.enc), Mut: m.name})
			}
		}
		if i%40 == 0 && len(muts) > 3 {
			r.Sample(c01Case{Hex: hex.EncodeToString(muts[len(muts)/2].enc), Mut: muts[len(muts)/2].name})
		}
	})
	// part (c): the serialiser carries no state from one call to the next. For every core bundle and every write
	// offset k the bundle is serialised into a writer that fails from byte k on; afterwards this bundle and the next
	// core bundle must serialise to exactly the bytes a fresh serialisation gave before any fault. Sequential on
	// purpose (the subject is state shared between calls).
	var nFaults int64
	{
		var encs [][]byte
		var bs []bpv7.Bundle
		for i := range core {
			b := core[i].Build()
			if b.CheckValid() != nil {
				continue
			}
			if enc, err := gen.Ser(&b); err == nil {
				bs, encs = append(bs, b), append(encs, enc)
			}
		}
		stable := make([]bool, len(bs))
		for i := range bs {
			stable[i] = true
			for _, cb := range bs[i].CanonicalBlocks {
				if t := cb.TypeCode(); t == bpv7.ExtBlockTypeDTLSRBlock || t == bpv7.ExtBlockTypeProphetBlock {
					stable[i] = false // map-valued: entry order unspecified
				}
			}
		}
		stride := 1
		if !thorough {
			stride = 3
		}
	outer:
		for i := range bs {
			if par.Expired() {
				break
			}
			for k := 0; k < len(encs[i]); k += stride {
				nFaults++
				fw := &c01FailWriter{left: k}
				err := func() (e error) {
					defer func() {
						if r := recover(); r != nil {
							e = fmt.Errorf("panic: %v", r)
						}
					}()
					return bs[i].WriteBundle(fw)
				}()
				if err == nil {
					sp := core[i]
					r.Violation("C01/serialiser-ignores-write-error", "roundtrip", fmt.Sprintf("the writer failed after %d of %d bytes but WriteBundle returned nil", k, len(encs[i])), c01Case{Spec: &sp})
					break outer
				}
				for _, j := range []int{i, (i + 1) % len(bs)} {
					if !stable[j] {
						continue // map-valued metadata block: the entry order is unspecified, bytes differ between calls anyway
					}
					again, serr := gen.Ser(&bs[j])
					if serr != nil || !bytes.Equal(again, encs[j]) {
						sp := core[j]
						r.Violation("C01/serialisation-depends-on-earlier-failed-serialisation", "roundtrip", fmt.Sprintf("after a serialisation (of core bundle %d) that failed at byte %d, core bundle %d, which serialised to %x before, now gives %x (error %v): state is kept between calls", i, k, j, encs[j], again, serr), c01Case{Spec: &sp})
						break outer
					}
				}
			}
		}
	}
	r.Add("serialisations_with_injected_write_fault", nFaults)
	r.Add("mutation_core_bundles", int64(len(core)))
	r.Add("mutated_encodings", nMut)
	r.Add("mutated_accepted", nAcc)
	r.Add("accepted_not_emitted_by_serialiser", nAccNonCanon)
	if nValid == 0 || nAccNonCanon == 0 {
		r.Violation("C01/vacuous", "none", "no valid bundle or no accepted non-canonical encoding explored", nil)
	}
	return r.Finish(map[string]interface{}{
		"evaluations":         int64(len(specs)) + nMut,
		"distinct_nontrivial": nValid + nAccNonCanon,
		"rule":                fmt.Sprintf("(a) every bundle with at most %d non-default dimensions of the %d-dimension alphabet (endpoint forms, all 512 flag combinations, CRC per block, timestamps/sequence/lifetime/fragment fields on CBOR width boundaries, 17 extension-block variants incl. unknown types, payload 0..2^20+1); valid ones (by the implementation's own CheckValid) are round-tripped; (b) for %d core bundles every single structural deviation of the encoding (each head in each wider form, block swaps, CRC type 0..4 with/without field, dtn:none as [1,n], trailing bytes in CBOR-valued blocks, definite outer array, block numbers, re-labelled block types) with CRCs recomputed by the reference; non-trivial = valid bundle round-tripped, or mutated encoding that the parser accepted and the serialiser would not have produced", d, len(dims), len(core)),
	}, []string{"reference encoder/CRC (mc/ref) used to re-seal mutated encodings", "map-valued PRoPHET/DTLSR blocks with >1 entry are excluded from byte-equality (entry order unspecified)", "coverage-guided fuzzing / arbitrary byte strings are outside this family and not covered"})
}

func mutClass(name string) string {
	// strip indices so that the class key names the deviation kind
	out := []byte{}
	for i := 0; i < len(name); i++ {
		c := name[i]
		if c >= '0' && c <= '9' {
			continue
		}
		out = append(out, c)
	}
	return string(out)
}

func replayC01(kind string, c json.RawMessage) (string, bool) {
	useVirtualClock()
	gen.RegisterAll()
	var cs c01Case
	if err := json.Unmarshal(c, &cs); err != nil {
		return err.Error(), false
	}
	if kind == "roundtrip" && cs.Spec != nil {
		k, d, _ := c01RoundTrip(*cs.Spec)
		return k + ": " + d, k != ""
	}
	enc, err := hex.DecodeString(cs.Hex)
	if err != nil {
		return err.Error(), false
	}
	k, d, _ := c01Accepted(enc)
	return k + ": " + d, k != ""
}

// c01FailWriter accepts `left` bytes and fails afterwards.
type c01FailWriter struct{ left int }

func (w *c01FailWriter) Write(p []byte) (int, error) {
	if len(p) <= w.left {
		w.left -= len(p)
		return len(p), nil
	}
	n := w.left
	w.left = 0
	return n, fmt.Errorf("scripted write failure")
}

// c01ChunkReader hands out at most n bytes per Read.
type c01ChunkReader struct {
	data []byte
	n    int
}

func (c *c01ChunkReader) Read(p []byte) (int, error) {
	if len(c.data) == 0 {
		return 0, io.EOF
	}
	k := c.n
	if k > len(p) {
		k = len(p)
	}
	if k > len(c.data) {
		k = len(c.data)
	}
	copy(p, c.data[:k])
	c.data = c.data[k:]
	return k, nil
}
