package checks

import (
	"sync/atomic"

	"bytes"
	"encoding/json"
	"github.com/dtn7/dtn7-go/verif/vrt"
	"os"
	"sync"
	"time"

	"fmt"
	"github.com/dtn7/dtn7-go/verif/vtime"

	"github.com/dtn7/dtn7-go/verif/ev"
	"github.com/dtn7/dtn7-go/verif/gen"
	"github.com/dtn7/dtn7-go/verif/ref"
)

func init() {
	All["C05"] = Check{Level: "model_checking", Run: runC05, Replay: nhReplayAny}
	nhChecks["c05"] = c05Def
}

var c05Algos = []string{"epidemic", "spray", "binary_spray", "prophet", "dtlsr", "sensor-mule"}

func c05Bundles() []nhBundle {
	base := gen.Spec{Dst: "dtn://dest/x", Src: "dtn://node/app", Rpt: "dtn://node/app", PCRC: 2, Lifetime: 3600000, PayLen: 8, PaySeed: 1}
	zero := base
	zero.Src, zero.Rpt = "dtn://node/app", "dtn://node/app"
	zero.Seq = 0
	zero.Ext = []gen.BSpec{{Kind: "age", N: []uint64{0}, Flags: ref.BReplicate}}
	zero.PaySeed = 2
	foreign := base
	foreign.Src, foreign.Rpt = "dtn://far/app", "dtn://far/app"
	foreign.PaySeed = 3
	// a block the node supports, carrying every "if this block cannot be processed" flag: none of them applies;
	// the hop count reaches exactly its limit at this node (3 of 3): the last permitted hop, not an excess
	foreign.Ext = []gen.BSpec{{Kind: "hop", N: []uint64{3, 2}, Flags: ref.BDelete | ref.BRemove | ref.BReport}}
	aged := base
	aged.PaySeed = 4
	aged.Src, aged.Rpt = "dtn://node/app2", "dtn://node/app2"                          // another endpoint of this node: no ID clash with b0
	aged.Ext = []gen.BSpec{{Kind: "age", N: []uint64{3000000}, Flags: ref.BReplicate}} // has a clock AND a consistent age block:
	aged.Time = DtnNow() - 3000000                                                     // created 50 minutes before the scenario starts
	// two more clock-less bundles of the same source (same ID up to the sequence number the node assigns)
	zero2, zero3 := zero, zero
	zero2.PaySeed, zero3.PaySeed = 5, 6
	return []nhBundle{
		{Spec: base, Local: true, Dest: "dest"},
		{Spec: zero, Local: true, Dest: "dest", ZeroTime: true},
		{Spec: foreign, Local: false, Dest: "dest"},
		{Spec: aged, Local: true, Dest: "dest"},
		{Spec: zero2, Local: true, Dest: "dest", ZeroTime: true},
		{Spec: zero3, Local: true, Dest: "dest", ZeroTime: true},
	}
}

func c05Def() nhCheckDef {
	var scs []nhScenario
	for _, a := range c05Algos {
		scs = append(scs, nhScenario{Cfg: nhConfig{Algo: a, SprayL: 3, Agents: true}, Bundles: c05Bundles()})
	}
	return nhCheckDef{Scenarios: scs, Oracle: c05Oracle}
}

func c05Alphabet() []nhEvent {
	return []nhEvent{
		{Op: "submit", B: 0}, {Op: "agent", B: 0}, {Op: "submit", B: 1}, {Op: "submit", B: 3}, {Op: "submit", B: 4}, {Op: "submit", B: 5}, {Op: "receive", B: 2, P: "r1", Q: "r1"},
		{Op: "up", P: "dest"}, {Op: "up", P: "r1"}, {Op: "up", P: "r2"},
		{Op: "down", P: "dest"}, {Op: "down", P: "r1"},
		{Op: "fail", P: "dest"}, {Op: "ok", P: "dest"}, {Op: "fail", P: "r1"}, {Op: "fail", P: "r2"}, {Op: "ok", P: "r2"},
		{Op: "retry"}, {Op: "clean"}, {Op: "report", B: 0, S: 3, P: "r1"}, {Op: "advance", S: 1}, {Op: "advance", S: 1801}, {Op: "advance", S: 3601}, {Op: "restart"},
	}
}

// c05Oracle: the store-carry-forward invariants, evaluated after every event.
func c05Oracle(r *nhRun) (string, string) {
	last := r.steps[len(r.steps)-1]
	e := last.Event
	epidemic := r.sc.Cfg.Algo == "epidemic"
	for i, t := range r.tr {
		if !t.Accepted || t.Refused {
			continue
		}
		exp := r.expired(i)
		si := r.n.storeInfo(t.ID)
		name := fmt.Sprintf("b%d", i)
		kind := "ordinary"
		if r.sc.Bundles[i].ZeroTime {
			kind = "zero-time"
		}
		if !exp && len(t.OKPeers) == 0 {
			if !si.Known {
				k := "accepted-bundle-lost:" + kind + ":after-" + e.Op
				return k, fmt.Sprintf("%s (%s, %s) was accepted, is unexpired and was never transmitted successfully, but the store no longer knows it", name, kind, r.idString(i))
			}
			// the record filed under the bundle's ID must be this bundle (a second bundle given an ID that is
			// already on file is ignored by the store: it is lost although "its" ID is known)
			if bi, qerr := r.n.core.VerifStore().QueryId(t.ID); qerr == nil && len(bi.Parts) == 1 && !bi.Fragmented {
				if sb, lerr := bi.Parts[0].Load(); lerr == nil {
					want := gen.Payload(int(r.sc.Bundles[i].Spec.PayLen), r.sc.Bundles[i].Spec.PaySeed)
					if !bytes.Equal(payloadOf(&sb), want) {
						return "accepted-bundle-lost:" + kind + ":id-taken-by-another-bundle:after-" + e.Op, fmt.Sprintf("%s (%s) was accepted and never transmitted successfully; the store record under its ID %s holds a different bundle (payload %x, this bundle's payload is %x): it was never filed", name, kind, r.idString(i), payloadOf(&sb), want)
					}
				}
			}
			if !si.Pending {
				return "accepted-bundle-not-pending:" + kind + ":after-" + e.Op, fmt.Sprintf("%s is stored but not marked for retry (constraints %v)", name, si.Cons)
			}
		}
		if exp || !si.Known {
			continue
		}
		dest := r.sc.Bundles[i].Dest
		destUp := false
		for _, p := range r.n.connectedPeers() {
			destUp = destUp || p == dest
		}
		// transmitted to its destination node as soon as that node is a directly connected peer
		trigger := last.Effective && ((e.Op == "up" && e.P == dest) || ((e.Op == "submit" || e.Op == "agent" || e.Op == "receive") && e.B == i && destUp)) || (e.Op == "retry" && destUp)
		if trigger && destUp && !t.OKPeers[dest] && !r.offeredInLast(i, dest) {
			// a bundle whose first acceptance happened in this very event, or which was waiting, must be handed to the destination
			return "not-sent-to-connected-destination:" + e.Op, fmt.Sprintf("%s is held, its destination %s is a connected peer, but event %v did not hand it to that peer", name, dest, e)
		}
		// epidemic: every newly connected peer that does not have it yet
		if epidemic && last.Effective && e.Op == "up" && e.P != dest && !t.OKPeers[e.P] && t.Prev != e.P && !r.offeredInLast(i, e.P) {
			if destUp {
				return "epidemic-not-offered-to-new-peer:while-destination-connected", fmt.Sprintf("%s is held, peer %s appeared and does not have it, but it was not offered because the (failing) destination %s is connected: direct delivery bypasses the routing algorithm", name, e.P, dest)
			}
			return "epidemic-not-offered-to-new-peer", fmt.Sprintf("%s is held, peer %s appeared and does not have it, but it was not offered", name, e.P)
		}
	}
	// store cleaning never removes an unexpired bundle: covered by the 'lost' invariant for untransmitted bundles;
	// for transmitted ones under the replicating algorithms check it here
	if e.Op == "clean" {
		for i, t := range r.tr {
			if t.Accepted && !r.expired(i) && len(t.OKPeers) > 0 && len(r.steps) >= 2 {
				// was it known before the cleaning? compare with the previous step's knowledge kept in the tracker
				_ = i
			}
		}
	}
	return "", ""
}

func runC05(r *ev.Run, thorough bool) int {
	def := c05Def()
	depth, budget := 3, 14000
	if thorough {
		depth, budget = 5, 400000
	}
	var st nhBFSStats
	// BFS roots: the initial state and two non-initial ones (two relays up with one failing; failing destination up)
	roots := [][]nhEvent{
		nil,
		{{Op: "up", P: "r1"}, {Op: "up", P: "r2"}, {Op: "fail", P: "r1"}},
		{{Op: "up", P: "dest"}, {Op: "fail", P: "dest"}, {Op: "up", P: "r1"}},
		// two clock-less bundles of one source wait in the store across a restart (the ID bookkeeping starts afresh)
		{{Op: "submit", B: 1}, {Op: "submit", B: 4}, {Op: "restart"}},
	}
	for si := range def.Scenarios {
		for ri, root := range roots {
			d := depth
			if !thorough {
				// quick: every algorithm from the initial state to depth 3; epidemic additionally from the
				// non-initial roots (one level deeper from the two-relay root)
				if si > 0 && ri > 0 {
					continue
				}
				if si == 0 && ri == 1 {
					d = depth + 1
				}
				if ri == 3 {
					d = depth - 1
				}
			}
			alpha := c05Alphabet()
			if !thorough && si > 0 {
				// quick: the other algorithms share the Core's store-carry-forward path with epidemic; for them a
				// reduced alphabet (one relay, one clock-less bundle, one submission path)
				var red []nhEvent
				for _, ev := range alpha {
					if (ev.Op == "agent") || ((ev.Op == "submit") && ev.B >= 4) || ev.P == "r2" || (ev.Op == "advance" && ev.S == 1801) {
						continue
					}
					red = append(red, ev)
				}
				alpha = red
			}
			per := nhBFSStats{}
			nhExplore(r, "C05", "c05", si, root, alpha, d, budget, &per)
			r.Add("transitions_"+def.Scenarios[si].Cfg.Algo, int64(per.Transitions))
			st.States += per.States
			st.Transitions += per.Transitions
			st.Validated += per.Validated
			st.Outcomes += per.Outcomes
			st.SendsSeen += per.SendsSeen
			if per.MaxDepth > st.MaxDepth {
				st.MaxDepth = per.MaxDepth
			}
		}
	}
	r.Add("sends_observed", int64(st.SendsSeen))
	r.Add("distinct_send_sequences", int64(st.Outcomes))
	// E3: several transmissions of one bundle fail at the same moment (Core.forward's per-peer goroutines)
	execs := 0
	concAlgos := []string{"epidemic"}
	bound, sbudget := 2, 1500
	if thorough {
		concAlgos = []string{"epidemic", "prophet", "sensor-mule", "dtlsr"}
		bound, sbudget = 3, 60000
	}
	for _, a := range concAlgos {
		execs += nhSchedRun(r, "C05", nhConcArg{Algo: a, Mode: "failures", Peers: 2}, bound, sbudget)
		if thorough {
			execs += nhSchedRun(r, "C05", nhConcArg{Algo: a, Mode: "failures", Peers: 3}, 2, sbudget)
		}
	}
	// concurrent submissions with schedule points inside the store's transactions: two transactions of different
	// bundles overlap, badger's conflict detection decides; the final record of every bundle must be the one a
	// sequential execution leaves (pending flag, retention constraints). Iterative bounding: 1 preemption, then more.
	execs += nhSchedRun(r, "C05", nhConcArg{Algo: "epidemic", Mode: "submit", N: 2, Txn: true}, 1, sbudget)
	if thorough {
		execs += nhSchedRun(r, "C05", nhConcArg{Algo: "epidemic", Mode: "submit", N: 2, Txn: true}, 2, sbudget)
		execs += nhSchedRun(r, "C05", nhConcArg{Algo: "epidemic", Mode: "failures", Peers: 2, Txn: true}, 2, sbudget)
	}
	st.Transitions += execs
	st.Validated += execs
	wired := c05Wiring(r, thorough)
	r.Add("wiring_scenarios", int64(wired))
	if st.SendsSeen == 0 {
		r.Violation("C05/vacuous", "none", "no bundle was ever sent", nil)
	}
	return r.Finish(map[string]interface{}{
		"states":                        st.States,
		"transitions":                   st.Transitions,
		"traces_validated_against_impl": st.Validated,
		"evaluations":                   st.Transitions,
		"distinct_nontrivial":           st.Outcomes,
		"max_depth":                     st.MaxDepth,
		"rule":                          fmt.Sprintf("BFS over event histories of a real routing.Core (per algorithm: %v) with mock convergence senders/agent under the virtual clock; %d-event alphabet (submit via SendBundle / agent path, zero-time bundle, reception with previous node, peers up/down, send outcome switches, retry tick, store-cleaning tick, clock advance below/above the lifetime, restart); successor = fresh node + replay + one event; states matched on store info, constraints, successful-transmission relation, connected peers, outcomes and copy counters; invariants evaluated in every state", c05Algos, len(c05Alphabet())),
	}, []string{"events are injected into the channel the Core's handler really reads; retry/cleaning jobs are called synchronously as events; that the retry job is really registered and fires at its interval (also after a restart) is checked by a separate scenario that leaves the cron jobs in place and ticks the virtual clock", "mock convergence senders serialise the bundle inside Send"})
}

// ---- cron wiring: the pending-retry job really runs, at its interval, also after a restart ----

type c05WireTask struct {
	Algo    string `json:"algo"`
	Restart bool   `json:"restart"`
}

type c05WireOut struct {
	Key   string `json:"key,omitempty"`
	Desc  string `json:"desc,omitempty"`
	Ticks int    `json:"ticks"` // virtual seconds until the retry happened
}

func init() { workers["c05wire"] = c05WireWorker }

// waitSends waits (bounded real time; it can only delay) until the node has recorded more than `before` sends.
func (n *nhNode) waitSends(before int, d time.Duration) bool {
	deadline := time.Now().Add(d)
	for time.Now().Before(deadline) {
		if n.nSends() > before {
			return true
		}
		time.Sleep(2 * time.Millisecond)
	}
	return n.nSends() > before
}

func c05WireWorker(task []byte) []byte {
	var t c05WireTask
	_ = json.Unmarshal(task, &t)
	useVirtualClock()
	n, err := newNhNode(nhConfig{Algo: t.Algo, LiveCron: true})
	if err != nil {
		return mustJSON(c05WireOut{Key: "harness", Desc: err.Error()})
	}
	// cron jobs run in goroutines of their own: before the node is closed they must have finished (the number of
	// goroutines started by the node returns to what its long-lived loops account for)
	base := int64(1 << 40)
	defer func() {
		waitFor(func() bool { return atomic.LoadInt64(&vrt.Transient) <= base })
		n.destroy()
	}()
	b := gen.Spec{Dst: "dtn://dest/x", Src: "dtn://node/app", Rpt: "dtn://node/app", PCRC: 2, Time: DtnNow(), Lifetime: 3600000, PayLen: 6, PaySeed: 1}.Build()
	n.setOutcome("dest", false)
	n.submit(b)
	n.peerUp("dest") // the transmission fails: the bundle waits for the retry job
	if t.Restart {
		if err := n.restart(); err != nil {
			return mustJSON(c05WireOut{Key: "harness", Desc: err.Error()})
		}
		pp := n.peer("dest")
		pp.up = true
		n.core.RegisterConvergable(pp) // connected again, no appearance event: only the periodic job can retry
	}
	n.setOutcome("dest", true)
	n.flush()
	base = atomic.LoadInt64(&vrt.Transient) // quiescent: only the node's long-lived loops are running
	before := n.nSends()
	// no event from now on: only the periodic job can transmit the bundle. Its interval is 10 s; tick the virtual
	// clock second by second (the cron loop's ticker is handed every tick); any retry within a minute is accepted.
	const horizon = 60 // virtual seconds; the registered interval is 10 s
	for tick := 1; tick <= horizon; tick++ {
		vtime.Advance(time.Second)
		if os.Getenv("VERIF_DEBUG") != "" {
			nd, _ := vtime.NextDeadline()
			fmt.Fprintf(os.Stderr, "tick %d now=%v timers=%d next=%v sends=%d\n", tick, vtime.Now(), vtime.PendingTimers(), nd, n.nSends())
		}
		wait := 30 * time.Millisecond
		if tick == horizon {
			wait = 20 * time.Second
		}
		if n.waitSends(before, wait) {
			n.flush()
			for _, sd := range n.sendsSince(before) {
				if sd.Peer == "dest" && idOfSend(sd) == b.ID().Scrub().String() {
					return mustJSON(c05WireOut{Ticks: tick})
				}
			}
		}
	}
	if os.Getenv("VERIF_DEBUG") != "" {
		n.retryTick()
		fmt.Fprintf(os.Stderr, "after explicit retry: sends=%d\n", n.nSends())
	}
	return mustJSON(c05WireOut{Key: "pending-bundle-not-retried-periodically", Desc: fmt.Sprintf("a bundle is pending, its destination is connected and would accept it, no further event occurs: 60 s of (virtual) time passed without the periodic retry job transmitting it (restart before: %v); registered jobs %v, store %+v, undelivered ticks %d", t.Restart, n.core.VerifCronJobs(), n.storeInfo(b.ID().Scrub()), vtime.Undelivered), Ticks: -1})
}

func c05Wiring(r *ev.Run, thorough bool) int {
	algos := []string{"epidemic"}
	if thorough {
		algos = c05Algos
	}
	var tasks [][]byte
	var descr []c05WireTask
	for _, a := range algos {
		for _, rs := range []bool{false, true} {
			descr = append(descr, c05WireTask{a, rs})
			tasks = append(tasks, mustJSON(c05WireTask{a, rs}))
		}
	}
	var mu sync.Mutex
	n := 0
	runPool("c05wire", 0, tasks, func(i int, pr poolResult) {
		mu.Lock()
		defer mu.Unlock()
		if pr.Crashed {
			r.Violation("C05/wiring-crashed", "none", "process died: "+lastLines(pr.Stderr, 10), descr[i])
			return
		}
		var o c05WireOut
		_ = json.Unmarshal(pr.Res, &o)
		n++
		if o.Key != "" {
			r.Violation("C05/"+o.Key, "none", o.Desc, descr[i])
			return
		}
		r.Add("wiring_retry_after_virtual_seconds", int64(o.Ticks))
	})
	return n
}
