package checks

import (
	"fmt"

	"github.com/dtn7/dtn7-go/verif/ev"
	"github.com/dtn7/dtn7-go/verif/gen"
)

func init() {
	All["C13"] = Check{Level: "model_checking", Run: runC13, Replay: nhReplayAny}
	nhChecks["c13"] = c13Def
}

var c13Algos = []string{"epidemic", "prophet", "spray", "binary_spray", "dtlsr", "sensor-mule"}

func c13Bundles(algo string) []nhBundle {
	foreign := gen.Spec{Dst: "dtn://dest/x", Src: "dtn://far/app", Rpt: "dtn://far/app", PCRC: 2, Lifetime: 3600000, PayLen: 8, PaySeed: 3}
	local := foreign
	local.Src, local.Rpt = "dtn://node/app", "dtn://node/app"
	local.PaySeed = 1
	bs := []nhBundle{{Spec: foreign, Dest: "dest"}, {Spec: local, Local: true, Dest: "dest"}}
	if algo == "dtlsr" {
		// a DTLSR broadcast (link-state) bundle from another node
		bc := foreign
		bc.Dst = "dtn://routing/dtlsr/broadcast/"
		bc.Src, bc.Rpt = "dtn://far/", "dtn://far/"
		bc.Flags = 4
		bc.PaySeed = 5
		bc.Ext = []gen.BSpec{{Kind: "dtlsr", S: []string{"dtn://far/", "dtn://other/"}, N: []uint64{1000, 0}}}
		bs = append(bs, nhBundle{Spec: bc, Dest: "nobody"})
		// a second broadcast of the same origin whose link-state data is not newer
		bc2 := bc
		bc2.Seq = 1
		bc2.PaySeed = 6
		bs = append(bs, nhBundle{Spec: bc2, Dest: "nobody"})
	}
	if algo == "prophet" {
		// summary vectors of r1 and r2 advertising a high predictability for the destination
		for i, p := range []string{"r1", "r2"} {
			mv := gen.Spec{Dst: nhNodeID, Src: "dtn://" + p + "/", Rpt: "dtn://" + p + "/", PCRC: 2, Lifetime: 60000, PayLen: 1, Flags: 4, PaySeed: byte(7 + i),
				Ext: []gen.BSpec{{Kind: "prophet", S: []string{"dtn://dest/x"}, F: []uint64{0x3feccccccccccccd}}}}
			bs = append(bs, nhBundle{Spec: mv, Dest: "node"})
		}
	}
	return bs
}

func c13Def() nhCheckDef {
	var scs []nhScenario
	for _, a := range c13Algos {
		scs = append(scs, nhScenario{Cfg: nhConfig{Algo: a, SprayL: 4}, Bundles: c13Bundles(a)})
	}
	return nhCheckDef{Scenarios: scs, Oracle: c13Oracle}
}

func c13Alphabet(algo string, peers []string) []nhEvent {
	ev := []nhEvent{{Op: "submit", B: 1}, {Op: "retry"}, {Op: "restart"}, {Op: "advance", S: 1}}
	for _, q := range peers[:2] {
		ev = append(ev, nhEvent{Op: "receive", B: 0, P: q, Q: q})
	}
	for _, p := range peers {
		ev = append(ev, nhEvent{Op: "up", P: p}, nhEvent{Op: "down", P: p}, nhEvent{Op: "fail", P: p}, nhEvent{Op: "ok", P: p})
	}
	// a second convergence adapter (another address) to the node r1
	ev = append(ev, nhEvent{Op: "up", P: "r1#2"}, nhEvent{Op: "down", P: "r1#2"})
	// a neighbour whose peer endpoint is dtn:none
	ev = append(ev, nhEvent{Op: "up", P: "anon"})
	if algo == "dtlsr" {
		ev = append(ev, nhEvent{Op: "receive", B: 2, P: "r1", Q: "r1"}, nhEvent{Op: "receive", B: 3, P: "r1", Q: "r1"}, nhEvent{Op: "receive", B: 3, P: "r2", Q: "r2"})
	}
	if algo == "prophet" {
		ev = append(ev, nhEvent{Op: "receive", B: 2, P: "r1"}, nhEvent{Op: "receive", B: 3, P: "r2"})
	}
	return ev
}

func c13Oracle(r *nhRun) (string, string) {
	last := r.steps[len(r.steps)-1]
	e := last.Event
	algo := r.sc.Cfg.Algo
	storeKept := algo == "epidemic" || algo == "prophet" || algo == "dtlsr" || algo == "sensor-mule"
	// the successful-transmission relation before this event: recompute from earlier steps
	okBefore := make([]map[string]bool, len(r.tr))
	for i := range okBefore {
		okBefore[i] = map[string]bool{}
	}
	heldSince := make([]int, len(r.tr)) // index of the step since which the node continuously remembers (restart resets for spray)
	for si, st := range r.steps[:len(r.steps)-1] {
		if st.Event.Op == "restart" && !storeKept {
			for i := range okBefore {
				okBefore[i] = map[string]bool{}
				heldSince[i] = si
			}
		}
		for _, s := range st.Sends {
			if !s.OK {
				continue
			}
			for i, t := range r.tr {
				if t.Accepted && idOfSend(s) == r.idString(i) {
					okBefore[i][s.Peer] = true
				}
			}
		}
	}
	if e.Op == "restart" && !storeKept {
		return "", ""
	}
	okNow := map[string]string{} // bundle/peer -> adapter of a successful transmission earlier in this step
	for _, s := range last.Sends {
		for i, t := range r.tr {
			if !t.Accepted || idOfSend(s) != r.idString(i) {
				continue
			}
			dest := r.sc.Bundles[i].Dest
			if via, dup := okNow[fmt.Sprint(i, "/", s.Peer)]; dup && s.Peer != dest && via != s.Via {
				return "sent-twice-to-same-peer:" + algo + ":two-adapters", fmt.Sprintf("b%d was transmitted successfully to node %s through adapter %s and in the same forwarding step handed to the same node again through adapter %s", i, s.Peer, via, s.Via)
			}
			if s.OK {
				okNow[fmt.Sprint(i, "/", s.Peer)] = s.Via
			}
			if s.Peer == dest {
				continue // direct delivery to the destination node is not a choice of the routing algorithm
			}
			if t.Prev != "" && s.Peer == t.Prev {
				return "sent-back-to-previous-node:" + algo, fmt.Sprintf("b%d was received from %s (previous-node block) and was handed to %s again", i, t.Prev, s.Peer)
			}
			if okBefore[i][s.Peer] {
				return "sent-twice-to-same-peer:" + algo + ":after-" + e.Op, fmt.Sprintf("b%d was already transmitted successfully to %s and the node still remembers it, but it was handed to %s again", i, s.Peer, s.Peer)
			}
		}
	}
	// a failed transmission makes exactly that peer eligible again (epidemic: every connected peer without the bundle is chosen)
	if (algo == "epidemic") && e.Op == "retry" {
		for i, t := range r.tr {
			if !t.Accepted || r.expired(i) || !r.n.storeInfo(t.ID).Known {
				continue
			}
			destUp := false
			for _, p := range r.n.connectedPeers() {
				destUp = destUp || p == r.sc.Bundles[i].Dest
			}
			if destUp {
				continue
			}
			for _, p := range r.n.connectedPeers() {
				if p == t.Prev || okBefore[i][p] || t.OKPeers[p] {
					continue
				}
				if !r.offeredInLast(i, p) {
					return "failed-peer-not-eligible-again:" + algo, fmt.Sprintf("b%d is held, %s is connected, never received it successfully and is not its previous node, but the retry tick did not offer it", i, p)
				}
			}
		}
	}
	// PRoPHET: a peer whose summary vector advertises a greater predictability for the destination is eligible; after a
	// failed transmission it is eligible again at the next retry
	if algo == "prophet" && e.Op == "retry" {
		vector := map[string]bool{}
		for _, st := range r.steps {
			switch {
			case st.Event.Op == "restart":
				vector = map[string]bool{} // the vectors live in memory
			case st.Event.Op == "receive" && (st.Event.B == 2 || st.Event.B == 3):
				vector[st.Event.P] = true
			}
		}
		for i, t := range r.tr {
			if i > 1 || !t.Accepted || r.expired(i) || !r.n.storeInfo(t.ID).Known {
				continue
			}
			destUp := false
			for _, p := range r.n.connectedPeers() {
				destUp = destUp || p == r.sc.Bundles[i].Dest
			}
			if destUp {
				continue
			}
			for _, p := range r.n.connectedPeers() {
				if !vector[p] || p == t.Prev || okBefore[i][p] || t.OKPeers[p] {
					continue
				}
				if !r.offeredInLast(i, p) {
					return "failed-peer-not-eligible-again:" + algo, fmt.Sprintf("b%d is held, %s is connected, advertises a greater predictability for the destination, never received the bundle successfully and is not its previous node, but the retry tick did not offer it", i, p)
				}
			}
		}
	}
	return "", ""
}

func runC13(r *ev.Run, thorough bool) int {
	peers := []string{"r1", "r2", "r3"}
	budget := 6000
	if thorough {
		peers = []string{"r1", "r2", "r3", "r4", "r5"}
		budget = 300000
	}
	var plans []nhPlan
	for si, a := range c13Algos {
		type root struct {
			ev []nhEvent
			dq int // quick depth
			dt int // thorough depth
		}
		roots := []root{
			{nil, 2, 4},
			{[]nhEvent{{Op: "up", P: "r1"}, {Op: "up", P: "r2"}}, 3, 5},
			{[]nhEvent{{Op: "up", P: "r1"}, {Op: "up", P: "r2"}, {Op: "fail", P: "r1"}}, 2, 4},
		}
		if a == "prophet" {
			mv := []nhEvent{{Op: "up", P: "r1"}, {Op: "up", P: "r2"}, {Op: "receive", B: 2, P: "r1"}, {Op: "receive", B: 3, P: "r2"}}
			roots = []root{{mv, 3, 5}, {append(append([]nhEvent(nil), mv...), nhEvent{Op: "fail", P: "r1"}), 2, 4},
				// a single better forwarder whose transmissions fail (the sent list of a fresh bundle becomes empty again)
				{[]nhEvent{{Op: "up", P: "r1"}, {Op: "receive", B: 2, P: "r1"}, {Op: "fail", P: "r1"}}, 2, 4}}
		}
		for _, rt := range roots {
			d := rt.dq
			if thorough {
				d = rt.dt
			}
			plans = append(plans, nhPlan{Scenario: si, Root: rt.ev, Alphabet: c13Alphabet(a, peers), Depth: d, Budget: budget})
		}
	}
	return nhRunPlans(r, "C13", "c13", plans,
		fmt.Sprintf("per algorithm %v: BFS over histories of receptions (each relay as previous node), local submission, peers %v up/down, send outcome switches, retry ticks, restarts; from the initial state and from a root with two relays connected (prophet: plus their summary vectors); in every state no send goes to the bundle's previous node, none to a peer that already received it successfully while the node remembers it (restart carve-out for the in-memory spray variants), and under epidemic a retry offers the bundle to every connected peer that lacks it", c13Algos, peers),
		[]string{"sends to the bundle's destination node are direct delivery and are not judged here"})
}
