// Package ev writes evidence files, violation artefacts and the
// VIOLATION / KNOWN-FINDING lines of the check interface.
package ev

import (
	"bufio"
	"crypto/sha256"
	"encoding/json"
	"fmt"
	"github.com/dtn7/dtn7-go/verif/par"
	"os"
	"path/filepath"
	"sort"
	"strconv"
	"strings"
	"sync"
	"time"
)

// Root is /verif (from $VERIF_ROOT).
func Root() string {
	if r := os.Getenv("VERIF_ROOT"); r != "" {
		return r
	}
	return "/verif"
}

type Violation struct {
	Property string      `json:"property"`
	Key      string      `json:"key"`
	Desc     string      `json:"desc"`
	Kind     string      `json:"kind"` // which sub-check produced it (for replay dispatch)
	Case     interface{} `json:"case"`
}

type Run struct {
	Prop, Tier, Level string
	start             time.Time
	mu                sync.Mutex
	viol              map[string][]Violation // by key
	violCount         map[string]int
	counters          map[string]int64
	samples           []interface{}
	sampleCap         int
	known             map[string]string // key -> description
	notes             []string
	Exhaustive        bool
	Deadline          time.Time
	capped            []string
}

func Seed() int {
	n, _ := strconv.Atoi(os.Getenv("VERIF_SEED"))
	return n
}

func Start(prop, tier, level string) *Run {
	r := &Run{Prop: prop, Tier: tier, Level: level, start: time.Now(), viol: map[string][]Violation{},
		violCount: map[string]int{}, counters: map[string]int64{}, sampleCap: 6, known: map[string]string{}, Exhaustive: true}
	r.loadKnown()
	// internal deadline: VERIF_DEADLINE_S, default 480 s (quick) / 1800 s (thorough); 0 = none
	d := 480
	if tier == "thorough" {
		d = 1800
	}
	if v := os.Getenv("VERIF_DEADLINE_S"); v != "" {
		d, _ = strconv.Atoi(v)
	}
	_ = os.Setenv("VERIF_DEADLINE_S", strconv.Itoa(d))
	if d > 0 {
		r.Deadline = r.start.Add(time.Duration(d) * time.Second)
		par.SetDeadline(r.Deadline)
	}
	return r
}

func (r *Run) loadKnown() {
	f, err := os.Open(filepath.Join(Root(), "known_findings.txt"))
	if err != nil {
		return
	}
	defer f.Close()
	sc := bufio.NewScanner(f)
	for sc.Scan() {
		line := strings.TrimSpace(sc.Text())
		if !strings.HasPrefix(line, "finding:") {
			continue
		}
		fs := strings.Fields(line)
		var prop, key string
		rest := []string{}
		for _, f := range fs[1:] {
			switch {
			case strings.HasPrefix(f, "property=") && prop == "":
				prop = strings.TrimPrefix(f, "property=")
			case strings.HasPrefix(f, "key=") && key == "":
				key = strings.TrimPrefix(f, "key=")
			default:
				rest = append(rest, f)
			}
		}
		if prop == r.Prop && key != "" {
			r.known[key] = strings.Join(rest, " ")
		}
	}
}

// Add adds n to a named counter.
func (r *Run) Add(name string, n int64) {
	r.mu.Lock()
	r.counters[name] += n
	r.mu.Unlock()
}

func (r *Run) Counter(name string) int64 {
	r.mu.Lock()
	defer r.mu.Unlock()
	return r.counters[name]
}

// Sample records one explored case (only the first few are kept).
func (r *Run) Sample(x interface{}) {
	r.mu.Lock()
	if len(r.samples) < r.sampleCap {
		r.samples = append(r.samples, x)
	}
	r.mu.Unlock()
}

func (r *Run) Note(s string) {
	r.mu.Lock()
	r.notes = append(r.notes, s)
	r.mu.Unlock()
}

// Capped records that some enumeration hit a cap (=> exhaustive:false).
func (r *Run) Capped(what string) {
	r.mu.Lock()
	r.Exhaustive = false
	r.capped = append(r.capped, what)
	r.mu.Unlock()
}

// Violation records a violating case. key is the narrow class key used for the
// known-findings match; kind/case are what --replay needs.
func (r *Run) Violation(key, kind, desc string, c interface{}) {
	r.mu.Lock()
	defer r.mu.Unlock()
	if strings.HasSuffix(key, "/vacuous") && par.DeadlineHit() {
		// a part that explored nothing because the internal deadline stopped the run is a cap, not a vacuous check
		r.notes = append(r.notes, "part not run (internal deadline): "+desc)
		return
	}
	r.violCount[key]++
	if len(r.viol[key]) < 3 {
		r.viol[key] = append(r.viol[key], Violation{Property: r.Prop, Key: key, Desc: desc, Kind: kind, Case: c})
	}
}

// Violations returns the number of distinct violation keys seen so far.
func (r *Run) Violations() int {
	r.mu.Lock()
	defer r.mu.Unlock()
	return len(r.viol)
}

// Finish writes the evidence file, prints the interface lines and returns the
// process exit code.
func (r *Run) Finish(cov map[string]interface{}, assumptions []string) int {
	r.mu.Lock()
	defer r.mu.Unlock()
	if par.DeadlineHit() {
		r.Exhaustive = false
		r.capped = append(r.capped, fmt.Sprintf("internal deadline of %s s reached: the remaining cases of this run were not executed (exit status is unaffected)", os.Getenv("VERIF_DEADLINE_S")))
	}
	wall := time.Since(r.start).Seconds()
	keys := make([]string, 0, len(r.viol))
	for k := range r.viol {
		keys = append(keys, k)
	}
	sort.Strings(keys)
	unknown := 0
	vdir := filepath.Join(Root(), "violations", r.Prop)
	knownSeen := []string{}
	for _, k := range keys {
		vs := r.viol[k]
		if desc, ok := r.known[k]; ok {
			fmt.Printf("KNOWN-FINDING: property=%s key=%s %s (%d cases this run; e.g. %s)\n", r.Prop, k, desc, r.violCount[k], oneLine(vs[0].Desc))
			knownSeen = append(knownSeen, k)
			continue
		}
		unknown++
		_ = os.MkdirAll(vdir, 0755)
		h := sha256.Sum256([]byte(k))
		p := filepath.Join(vdir, fmt.Sprintf("%s-%x.json", sanitize(k), h[:4]))
		data, _ := json.MarshalIndent(vs[0], "", " ")
		_ = os.WriteFile(p, data, 0644)
		fmt.Printf("VIOLATION property=%s replay=%s\n", r.Prop, p)
		fmt.Printf("  key=%s cases=%d: %s\n", k, r.violCount[k], oneLine(vs[0].Desc))
	}
	// known findings that did not reproduce are reported (not an error)
	for k := range r.known {
		found := false
		for _, s := range knownSeen {
			if s == k {
				found = true
			}
		}
		if !found {
			fmt.Printf("note: listed finding %s did not occur in this run\n", k)
		}
	}
	if cov == nil {
		cov = map[string]interface{}{}
	}
	if _, ok := cov["samples"]; !ok {
		s := r.samples
		if len(s) == 0 {
			s = []interface{}{"(none)"}
		}
		cov["samples"] = s
	}
	cov["exhaustive"] = r.Exhaustive
	if len(r.capped) > 0 {
		cov["caps_hit"] = r.capped
	}
	cn := map[string]int64{}
	for k, v := range r.counters {
		cn[k] = v
	}
	cov["counters"] = cn
	if len(r.notes) > 0 {
		cov["notes"] = r.notes
	}
	cov["known_findings_seen"] = knownSeen
	evd := map[string]interface{}{
		"property_id": r.Prop,
		"tier":        r.Tier,
		"seed":        Seed(),
		"level":       r.Level,
		"coverage":    cov,
		"assumptions": assumptions,
		"wall_s":      wall,
		"violations":  unknown,
	}
	data, _ := json.MarshalIndent(evd, "", " ")
	_ = os.MkdirAll(filepath.Join(Root(), "evidence"), 0755)
	if err := os.WriteFile(filepath.Join(Root(), "evidence", r.Prop+".json"), data, 0644); err != nil {
		fmt.Fprintln(os.Stderr, "cannot write evidence:", err)
		return 2
	}
	fmt.Printf("%s %s: %.1fs, violations=%d known=%d exhaustive=%v\n", r.Prop, r.Tier, wall, unknown, len(knownSeen), r.Exhaustive)
	if unknown > 0 {
		return 1
	}
	return 0
}

func oneLine(s string) string {
	s = strings.ReplaceAll(s, "\n", " | ")
	if len(s) > 300 {
		s = s[:300] + "..."
	}
	return s
}

func sanitize(s string) string {
	var b strings.Builder
	for _, c := range s {
		if c >= 'a' && c <= 'z' || c >= 'A' && c <= 'Z' || c >= '0' && c <= '9' || c == '-' || c == '_' {
			b.WriteRune(c)
		} else {
			b.WriteByte('_')
		}
	}
	if b.Len() > 60 {
		return b.String()[:60]
	}
	return b.String()
}

// TimeLeft reports whether the run's internal deadline (if any) has not passed.
func (r *Run) TimeLeft() bool {
	return r.Deadline.IsZero() || time.Now().Before(r.Deadline)
}
