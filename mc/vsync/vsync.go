// Package vsync is an API-compatible stand-in for package sync. Goroutines that
// are not managed by the vrt scheduler use the real primitives; managed threads
// pass a schedule point before every operation and are only scheduled when the
// operation can complete, which makes blocking visible to the scheduler
// (deadlock = no enabled thread).
package vsync

import (
	"fmt"
	"sort"
	"sync"
	"sync/atomic"

	"github.com/dtn7/dtn7-go/verif/vrt"
)

type Locker = sync.Locker
type Pool = sync.Pool
type Cond = sync.Cond

func NewCond(l Locker) *Cond { return sync.NewCond(l) }

// ---------------------------------------------------------------------------

type Mutex struct {
	mu   sync.Mutex
	held int32
}

func (m *Mutex) Lock() {
	if vrt.Managed() {
		vrt.Yield(func() bool { return atomic.LoadInt32(&m.held) == 0 }, "Mutex.Lock")
	}
	m.mu.Lock()
	atomic.StoreInt32(&m.held, 1)
}

func (m *Mutex) Unlock() {
	atomic.StoreInt32(&m.held, 0)
	m.mu.Unlock()
	if vrt.Managed() {
		vrt.Yield(nil, "Mutex.Unlock")
	}
}

func (m *Mutex) TryLock() bool {
	if m.mu.TryLock() {
		atomic.StoreInt32(&m.held, 1)
		return true
	}
	return false
}

// ---------------------------------------------------------------------------

type RWMutex struct {
	mu      sync.RWMutex
	writer  int32
	readers int32
}

func (m *RWMutex) Lock() {
	if vrt.Managed() {
		vrt.Yield(func() bool {
			return atomic.LoadInt32(&m.writer) == 0 && atomic.LoadInt32(&m.readers) == 0
		}, "RWMutex.Lock")
	}
	m.mu.Lock()
	atomic.StoreInt32(&m.writer, 1)
}

func (m *RWMutex) Unlock() {
	atomic.StoreInt32(&m.writer, 0)
	m.mu.Unlock()
	if vrt.Managed() {
		vrt.Yield(nil, "RWMutex.Unlock")
	}
}

func (m *RWMutex) RLock() {
	if vrt.Managed() {
		vrt.Yield(func() bool { return atomic.LoadInt32(&m.writer) == 0 }, "RWMutex.RLock")
	}
	m.mu.RLock()
	atomic.AddInt32(&m.readers, 1)
}

func (m *RWMutex) RUnlock() {
	atomic.AddInt32(&m.readers, -1)
	m.mu.RUnlock()
	if vrt.Managed() {
		vrt.Yield(nil, "RWMutex.RUnlock")
	}
}

func (m *RWMutex) RLocker() Locker { return (*rlocker)(m) }

type rlocker RWMutex

func (r *rlocker) Lock()   { (*RWMutex)(r).RLock() }
func (r *rlocker) Unlock() { (*RWMutex)(r).RUnlock() }

// ---------------------------------------------------------------------------

type WaitGroup struct {
	wg sync.WaitGroup
	n  int64
}

func (w *WaitGroup) Add(d int) {
	atomic.AddInt64(&w.n, int64(d))
	w.wg.Add(d)
	if d < 0 && vrt.Managed() {
		vrt.Yield(nil, "WaitGroup.Done")
	}
}

func (w *WaitGroup) Done() { w.Add(-1) }

func (w *WaitGroup) Wait() {
	if vrt.Managed() {
		vrt.Yield(func() bool { return atomic.LoadInt64(&w.n) <= 0 }, "WaitGroup.Wait")
	}
	w.wg.Wait()
}

// ---------------------------------------------------------------------------

type Once struct {
	m    Mutex
	done uint32
}

func (o *Once) Do(f func()) {
	if atomic.LoadUint32(&o.done) == 1 {
		return
	}
	o.m.Lock()
	defer o.m.Unlock()
	if o.done == 0 {
		defer atomic.StoreUint32(&o.done, 1)
		f()
	}
}

// ---------------------------------------------------------------------------

// RangeOrder selects the iteration order of Map.Range: 0 = native (random),
// 1 = ascending by fmt.Sprint(key), 2 = descending. Set by harnesses so that
// map iteration is a controlled choice instead of a source of nondeterminism.
var RangeOrder int32

// RangeLess, if it holds a func(a, b interface{}) bool, orders the keys of Map.Range (overrides RangeOrder != 0).
var RangeLess atomic.Value

type Map struct {
	m sync.Map
}

func pt(op string) {
	if vrt.Managed() {
		vrt.Yield(nil, "Map."+op)
	}
}

func (m *Map) Load(key interface{}) (interface{}, bool) { pt("Load"); return m.m.Load(key) }
func (m *Map) Store(key, value interface{})             { pt("Store"); m.m.Store(key, value) }
func (m *Map) LoadOrStore(key, value interface{}) (interface{}, bool) {
	pt("LoadOrStore")
	return m.m.LoadOrStore(key, value)
}
func (m *Map) LoadAndDelete(key interface{}) (interface{}, bool) {
	pt("LoadAndDelete")
	return m.m.LoadAndDelete(key)
}
func (m *Map) Delete(key interface{}) { pt("Delete"); m.m.Delete(key) }
func (m *Map) Swap(key, value interface{}) (interface{}, bool) {
	pt("Swap")
	return m.m.Swap(key, value)
}
func (m *Map) CompareAndSwap(key, old, new interface{}) bool {
	pt("CompareAndSwap")
	return m.m.CompareAndSwap(key, old, new)
}
func (m *Map) CompareAndDelete(key, old interface{}) bool {
	pt("CompareAndDelete")
	return m.m.CompareAndDelete(key, old)
}

func (m *Map) Range(f func(key, value interface{}) bool) {
	pt("Range")
	ord := atomic.LoadInt32(&RangeOrder)
	if ord == 0 {
		m.m.Range(f)
		return
	}
	type kv struct {
		s    string
		k, v interface{}
	}
	var all []kv
	m.m.Range(func(k, v interface{}) bool {
		all = append(all, kv{fmt.Sprint(k), k, v})
		return true
	})
	if less, _ := RangeLess.Load().(func(a, b interface{}) bool); less != nil {
		sort.SliceStable(all, func(i, j int) bool { return less(all[i].k, all[j].k) })
		for _, e := range all {
			if cur, ok := m.m.Load(e.k); !ok {
				continue
			} else if !f(e.k, cur) {
				return
			}
		}
		return
	}
	sort.Slice(all, func(i, j int) bool {
		if ord == 1 {
			return all[i].s < all[j].s
		}
		return all[i].s > all[j].s
	})
	for _, e := range all {
		// skip entries deleted meanwhile (Range never yields deleted keys it has not reached yet)
		if cur, ok := m.m.Load(e.k); !ok {
			continue
		} else if !f(e.k, cur) {
			return
		}
	}
}
