// Package gen is the structured bundle alphabet shared by the checks. A Spec is
// a JSON-serialisable description from which the implementation's Bundle is
// built without going through its validating constructors, so that invalid
// shapes can be expressed as well.
package gen

import (
	"bytes"
	"fmt"
	"math"
	"reflect"
	"sync"

	"github.com/dtn7/dtn7-go/pkg/bpv7"
)

// BSpec describes one extension block.
type BSpec struct {
	Kind  string   `json:"kind"` // prev age hop spray dtlsr prophet sig unk
	Flags uint64   `json:"flags,omitempty"`
	CRC   uint64   `json:"crc,omitempty"`
	Num   uint64   `json:"num,omitempty"` // 0 = assign 2,3,...
	N     []uint64 `json:"n,omitempty"`   // numeric args
	S     []string `json:"s,omitempty"`   // string args (endpoint URIs)
	F     []uint64 `json:"f,omitempty"`   // float bits
	Len   int      `json:"len,omitempty"` // data length for unk / type code in N[0]
}

// Spec describes a bundle.
type Spec struct {
	Dst, Src, Rpt string
	Flags         uint64
	PCRC          uint64
	Time, Seq     uint64
	Lifetime      uint64
	FragOff       uint64
	Total         uint64
	Ext           []BSpec
	PayLen        int
	PayFlags      uint64
	PayCRC        uint64
	PaySeed       byte // payload byte i = byte(i*7+seed) ; seed 0 => i*7
}

var regOnce sync.Once

// RegisterAll registers every extension block type of the tree (the routing
// algorithms and the signature feature do this lazily at run time).
func RegisterAll() {
	regOnce.Do(func() {
		m := bpv7.GetExtensionBlockManager()
		_ = m.Register(bpv7.NewBinarySprayBlock(0))
		_ = m.Register(bpv7.NewDTLSRBlock(bpv7.DTLSRPeerData{}))
		_ = m.Register(bpv7.NewProphetBlock(map[bpv7.EndpointID]float64{}))
		_ = m.Register(&bpv7.SignatureBlock{})
	})
}

func Payload(n int, seed byte) []byte {
	p := make([]byte, n)
	for i := range p {
		p[i] = byte(i*7) + seed
	}
	return p
}

func MustEID(s string) bpv7.EndpointID {
	e, err := bpv7.NewEndpointID(s)
	if err != nil {
		panic(fmt.Sprintf("gen: bad endpoint %q: %v", s, err))
	}
	return e
}

func arg(n []uint64, i int, def uint64) uint64 {
	if i < len(n) {
		return n[i]
	}
	return def
}

// Value builds the extension block value of a BSpec.
func (b BSpec) Value() bpv7.ExtensionBlock {
	switch b.Kind {
	case "prev":
		return bpv7.NewPreviousNodeBlock(MustEID(b.S[0]))
	case "age":
		return bpv7.NewBundleAgeBlock(arg(b.N, 0, 0))
	case "hop":
		h := bpv7.NewHopCountBlock(uint8(arg(b.N, 0, 0)))
		h.Count = uint8(arg(b.N, 1, 0))
		return h
	case "spray":
		return bpv7.NewBinarySprayBlock(arg(b.N, 0, 0))
	case "dtlsr":
		d := bpv7.DTLSRPeerData{ID: MustEID(b.S[0]), Timestamp: bpv7.DtnTime(arg(b.N, 0, 0)), Peers: map[bpv7.EndpointID]bpv7.DtnTime{}}
		for i, s := range b.S[1:] {
			d.Peers[MustEID(s)] = bpv7.DtnTime(arg(b.N, i+1, 0))
		}
		return bpv7.NewDTLSRBlock(d)
	case "prophet":
		m := map[bpv7.EndpointID]float64{}
		for i, s := range b.S {
			m[MustEID(s)] = math.Float64frombits(arg(b.F, i, 0))
		}
		return bpv7.NewProphetBlock(m)
	case "sig":
		return &bpv7.SignatureBlock{PublicKey: Payload(int(arg(b.N, 0, 32)), 3), Signature: Payload(int(arg(b.N, 1, 64)), 5)}
	case "unk":
		return bpv7.NewGenericExtensionBlock(Payload(b.Len, 9), arg(b.N, 0, 200))
	}
	panic("gen: unknown block kind " + b.Kind)
}

// Build constructs the implementation bundle (no validation).
func (s Spec) Build() bpv7.Bundle {
	RegisterAll()
	pb := bpv7.PrimaryBlock{
		Version:            7,
		BundleControlFlags: bpv7.BundleControlFlags(s.Flags),
		CRCType:            bpv7.CRCType(s.PCRC),
		Destination:        MustEID(s.Dst),
		SourceNode:         MustEID(s.Src),
		ReportTo:           MustEID(s.Rpt),
		CreationTimestamp:  bpv7.NewCreationTimestamp(bpv7.DtnTime(s.Time), s.Seq),
		Lifetime:           s.Lifetime,
		FragmentOffset:     s.FragOff,
		TotalDataLength:    s.Total,
	}
	var cbs []bpv7.CanonicalBlock
	next := uint64(2)
	for _, b := range s.Ext {
		num := b.Num
		if num == 0 {
			num = next
			next++
		}
		cb := bpv7.NewCanonicalBlock(num, bpv7.BlockControlFlags(b.Flags), b.Value())
		cb.CRCType = bpv7.CRCType(b.CRC)
		cbs = append(cbs, cb)
	}
	pl := bpv7.NewCanonicalBlock(1, bpv7.BlockControlFlags(s.PayFlags), bpv7.NewPayloadBlock(Payload(s.PayLen, s.PaySeed)))
	pl.CRCType = bpv7.CRCType(s.PayCRC)
	cbs = append(cbs, pl)
	return bpv7.MustNewBundle(pb, cbs)
}

// Ser serialises a bundle with the implementation.
func Ser(b *bpv7.Bundle) ([]byte, error) {
	var buf bytes.Buffer
	err := b.WriteBundle(&buf)
	return buf.Bytes(), err
}

// Parse parses with the implementation.
func Parse(d []byte) (bpv7.Bundle, error) {
	return bpv7.ParseBundle(bytes.NewReader(d))
}

// ---------------------------------------------------------------------------
// field-by-field comparison of implementation bundles

func valueBytes(v bpv7.ExtensionBlock) []byte {
	var buf bytes.Buffer
	_ = bpv7.GetExtensionBlockManager().WriteBlock(v, &buf)
	return buf.Bytes()
}

// EqualValue compares two extension block values by content.
func EqualValue(a, b bpv7.ExtensionBlock) bool {
	if a == nil || b == nil {
		return a == nil && b == nil
	}
	if a.BlockTypeCode() != b.BlockTypeCode() || reflect.TypeOf(a) != reflect.TypeOf(b) {
		return false
	}
	switch x := a.(type) {
	case *bpv7.DTLSRBlock:
		y := b.(*bpv7.DTLSRBlock)
		if x.ID != y.ID || x.Timestamp != y.Timestamp || len(x.Peers) != len(y.Peers) {
			return false
		}
		for k, v := range x.Peers {
			if w, ok := y.Peers[k]; !ok || w != v {
				return false
			}
		}
		return true
	case *bpv7.ProphetBlock:
		y := b.(*bpv7.ProphetBlock)
		if len(*x) != len(*y) {
			return false
		}
		for k, v := range *x {
			if w, ok := (*y)[k]; !ok || math.Float64bits(w) != math.Float64bits(v) {
				return false
			}
		}
		return true
	}
	return bytes.Equal(valueBytes(a), valueBytes(b))
}

// DiffBundles lists the fields in which two implementation bundles differ
// (cached CRC values are not fields of the bundle and are ignored).
func DiffBundles(a, b bpv7.Bundle) []string {
	var d []string
	pa, pb := a.PrimaryBlock, b.PrimaryBlock
	pa.CRC, pb.CRC = nil, nil
	if !reflect.DeepEqual(pa, pb) {
		d = append(d, fmt.Sprintf("primary: {%v} vs {%v}", pa, pb))
	}
	if len(a.CanonicalBlocks) != len(b.CanonicalBlocks) {
		d = append(d, fmt.Sprintf("block count %d vs %d", len(a.CanonicalBlocks), len(b.CanonicalBlocks)))
		return d
	}
	for i := range a.CanonicalBlocks {
		x, y := a.CanonicalBlocks[i], b.CanonicalBlocks[i]
		if x.BlockNumber != y.BlockNumber || x.BlockControlFlags != y.BlockControlFlags || x.CRCType != y.CRCType ||
			x.TypeCode() != y.TypeCode() {
			d = append(d, fmt.Sprintf("block[%d] header: type %d num %d flags %x crc %d vs type %d num %d flags %x crc %d", i,
				x.TypeCode(), x.BlockNumber, uint64(x.BlockControlFlags), x.CRCType, y.TypeCode(), y.BlockNumber, uint64(y.BlockControlFlags), y.CRCType))
			continue
		}
		if !EqualValue(x.Value, y.Value) {
			d = append(d, fmt.Sprintf("block[%d] (type %d) content differs", i, x.TypeCode()))
		}
	}
	return d
}

// HasMultiMap reports whether the bundle carries a map-valued metadata block
// with more than one entry (whose byte order is unspecified).
func HasMultiMap(b bpv7.Bundle) bool {
	for _, cb := range b.CanonicalBlocks {
		switch x := cb.Value.(type) {
		case *bpv7.DTLSRBlock:
			if len(x.Peers) > 1 {
				return true
			}
		case *bpv7.ProphetBlock:
			if len(*x) > 1 {
				return true
			}
		}
	}
	return false
}
