package gen

import (
	"github.com/dtn7/dtn7-go/verif/ref"
	"strings"
)

// Dim is one dimension of the bundle alphabet: N values, value 0 is the default;
// Apply sets value v on the spec.
type Dim struct {
	Name  string
	N     int
	Apply func(s *Spec, v int)
}

var EIDForms = []string{"dtn://n/", "dtn:none", "dtn://n/x", "dtn://n/~g", "ipn:1.1", "ipn:18446744073709551615.18446744073709551615", "dtn://other-node.with_chars/a/b/c",
	// multi-byte UTF-8 in the demux part (character count != byte count), and scheme-specific parts whose length
	// sits on both sides of the CBOR width boundaries 23/24 and 255/256
	"dtn://n/caf\u00e9", "dtn://n/\u20ac\U0001F600x",
	"dtn://n/" + strings.Repeat("a", 17), "dtn://n/" + strings.Repeat("b", 18), "dtn://n/" + strings.Repeat("c", 249), "dtn://n/" + strings.Repeat("d", 250)}

var U64Bounds = []uint64{0, 1, 23, 24, 255, 256, 65535, 65536, 1<<32 - 1, 1 << 32, 1<<64 - 1}

var PayLens = []int{4, 0, 1, 23, 24, 255, 256, 65535, 65536, 1 << 20, 1<<20 + 1}

// AllFlags lists every combination of the nine defined bundle control flags.
func AllFlags() []uint64 {
	bits := []uint64{ref.FIsFragment, ref.FAdminRecord, ref.FMustNotFrag, ref.FAppAck, ref.FStatusTime, ref.FReqReception, ref.FReqForward, ref.FReqDelivery, ref.FReqDeletion}
	out := make([]uint64, 0, 512)
	for m := 0; m < 512; m++ {
		var f uint64
		for i, b := range bits {
			if m&(1<<uint(i)) != 0 {
				f |= b
			}
		}
		out = append(out, f)
	}
	return out
}

// ExtKinds are the extension blocks of the alphabet.
func ExtKinds() []BSpec {
	return []BSpec{
		{Kind: "prev", S: []string{"dtn://prev/"}},
		{Kind: "prev", S: []string{"ipn:7.9"}},
		{Kind: "age", N: []uint64{0}},
		{Kind: "age", N: []uint64{65536}},
		{Kind: "hop", N: []uint64{255, 24}},
		{Kind: "hop", N: []uint64{0, 0}},
		{Kind: "spray", N: []uint64{1 << 32}},
		{Kind: "dtlsr", S: []string{"dtn://me/"}, N: []uint64{77}},
		{Kind: "dtlsr", S: []string{"dtn://me/", "ipn:3.4"}, N: []uint64{1 << 40, 255}},
		{Kind: "dtlsr", S: []string{"dtn://me/", "ipn:3.4", "dtn://z/"}, N: []uint64{9, 0, 256}},
		// an anonymous neighbour (dtn:none) as peer / as predictability entry
		{Kind: "dtlsr", S: []string{"dtn://me/", "dtn:none"}, N: []uint64{5, 0}},
		{Kind: "prophet", S: []string{"dtn:none"}, F: []uint64{0x3fe0000000000000}},
		{Kind: "prophet"},
		{Kind: "prophet", S: []string{"dtn://p/"}, F: []uint64{0x3fe8000000000000}},
		{Kind: "prophet", S: []string{"dtn://p/", "dtn://q/"}, F: []uint64{1, 0x3ff0000000000000}},
		{Kind: "sig"},
		// block type codes and block numbers on both sides of the CBOR width boundaries 23/24 and 255/256
		{Kind: "unk", N: []uint64{23}, Len: 2, Num: 23},
		{Kind: "unk", N: []uint64{24}, Len: 2, Num: 24},
		{Kind: "unk", N: []uint64{255}, Len: 2, Num: 255},
		{Kind: "unk", N: []uint64{256}, Len: 2, Num: 256},
		{Kind: "unk", N: []uint64{200}, Len: 0},
		{Kind: "unk", N: []uint64{201}, Len: 24},
		{Kind: "unk", N: []uint64{65536}, Len: 256},
	}
}

// Dims returns the dimensions of the alphabet around a valid default bundle
// created at dtnNow.
func Dims(dtnNow uint64) (Spec, []Dim) {
	def := Spec{Dst: "dtn://n/", Src: "dtn://src/", Rpt: "dtn://src/", PCRC: 2, Time: dtnNow, Lifetime: 3600000, PayLen: 4}
	flags := AllFlags()
	kinds := ExtKinds()
	blockFlags := []uint64{0, ref.BReplicate, ref.BReport, ref.BDelete, ref.BRemove, ref.BReplicate | ref.BReport | ref.BDelete | ref.BRemove, 0x100}
	dims := []Dim{
		{"dst", len(EIDForms), func(s *Spec, v int) { s.Dst = EIDForms[v] }},
		{"src", len(EIDForms), func(s *Spec, v int) {
			s.Src = EIDForms[v]
			if s.Src == "dtn:none" { // anonymous bundles must carry must-not-fragment
				s.Flags |= ref.FMustNotFrag
			}
		}},
		{"rpt", len(EIDForms), func(s *Spec, v int) { s.Rpt = EIDForms[v] }},
		{"flags", len(flags), func(s *Spec, v int) { s.Flags = flags[v] }},
		{"pcrc", 3, func(s *Spec, v int) { s.PCRC = []uint64{2, 1, 0}[v] }},
		{"paycrc", 3, func(s *Spec, v int) { s.PayCRC = uint64(v) }},
		{"payflags", len(blockFlags), func(s *Spec, v int) { s.PayFlags = blockFlags[v] }},
		{"time", 4, func(s *Spec, v int) {
			switch v {
			case 1: // no clock: needs an age block
				s.Time = 0
				s.Ext = append(s.Ext, BSpec{Kind: "age", N: []uint64{1000}})
			case 2:
				s.Time = 1<<32 - 1
				s.Lifetime = 1 << 62
			case 3:
				s.Time = 1 << 32
				s.Lifetime = 1 << 62
			}
		}},
		{"seq", len(U64Bounds), func(s *Spec, v int) { s.Seq = U64Bounds[v] }},
		{"lifetime", len(U64Bounds), func(s *Spec, v int) {
			if v > 0 {
				s.Lifetime = U64Bounds[v]
				if s.Lifetime < 3600000 && s.Time != 0 {
					s.Lifetime += 3600000 // keep the bundle alive
				}
			}
		}},
		{"fragoff", len(U64Bounds), func(s *Spec, v int) {
			if v > 0 {
				s.Flags |= ref.FIsFragment
				s.Flags &^= ref.FMustNotFrag
				s.FragOff = U64Bounds[v]
			}
		}},
		{"total", len(U64Bounds), func(s *Spec, v int) {
			if v > 0 {
				s.Flags |= ref.FIsFragment
				s.Flags &^= ref.FMustNotFrag
				s.Total = U64Bounds[v]
			}
		}},
		{"ext1", len(kinds) + 1, func(s *Spec, v int) {
			if v > 0 {
				s.Ext = append(s.Ext, kinds[v-1])
			}
		}},
		{"ext2", len(kinds) + 1, func(s *Spec, v int) {
			if v > 0 {
				s.Ext = append(s.Ext, kinds[len(kinds)-v])
			}
		}},
		{"extflags", len(blockFlags), func(s *Spec, v int) {
			for i := range s.Ext {
				s.Ext[i].Flags = blockFlags[v]
			}
		}},
		{"extcrc", 3, func(s *Spec, v int) {
			for i := range s.Ext {
				s.Ext[i].CRC = uint64(v)
			}
		}},
		{"paylen", len(PayLens), func(s *Spec, v int) { s.PayLen = PayLens[v] }},
	}
	return def, dims
}

// Assignments calls f for every assignment with at most d non-default
// dimensions (each dimension's non-default values 1..N-1). vals[i] is the value
// of dimension i.
func Assignments(dims []Dim, d int, f func(vals []int)) {
	vals := make([]int, len(dims))
	var rec func(start, left int)
	rec = func(start, left int) {
		f(vals)
		if left == 0 {
			return
		}
		for i := start; i < len(dims); i++ {
			for v := 1; v < dims[i].N; v++ {
				vals[i] = v
				rec(i+1, left-1)
			}
			vals[i] = 0
		}
	}
	rec(0, d)
}

// Make applies the assignment to a copy of def (dimensions applied in order;
// "ext*" dimensions before "extflags"/"extcrc" by construction of Dims).
func Make(def Spec, dims []Dim, vals []int) Spec {
	s := def
	s.Ext = nil
	for i, v := range vals {
		if v != 0 {
			dims[i].Apply(&s, v)
		}
	}
	return s
}
