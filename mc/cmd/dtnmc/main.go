// dtnmc is the model-checking driver: dtnmc <property> <quick|thorough> or
// dtnmc <property> --replay <file>.
package main

import (
	"encoding/json"
	"fmt"
	"io"
	"os"

	log "github.com/sirupsen/logrus"

	"github.com/dtn7/dtn7-go/verif/checks"
	"github.com/dtn7/dtn7-go/verif/ev"
)

func main() {
	log.SetOutput(io.Discard)
	log.SetLevel(log.PanicLevel)
	if os.Getenv("VERIF_LOG") != "" { // debugging aid: the repository's own warnings on stderr
		log.SetOutput(os.Stderr)
		log.SetLevel(log.WarnLevel)
	}
	if len(os.Args) >= 4 && os.Args[1] == "child" {
		checks.ChildMain(os.Args[2], os.Args[3])
		return
	}
	if len(os.Args) >= 4 && os.Args[1] == "bench" {
		checks.Bench(os.Args[2], os.Args[3])
		return
	}
	if len(os.Args) >= 5 && os.Args[1] == "freerun" {
		checks.FreeRun(os.Args[2], os.Args[3], os.Args[4])
		return
	}
	if len(os.Args) >= 2 && os.Args[1] == "worker" {
		checks.WorkerMain()
		return
	}
	if len(os.Args) < 3 {
		fmt.Fprintln(os.Stderr, "usage: dtnmc <Cxx> quick|thorough | dtnmc <Cxx> --replay <file>")
		os.Exit(2)
	}
	prop := os.Args[1]
	c, ok := checks.All[prop]
	if !ok {
		fmt.Fprintln(os.Stderr, "unknown property", prop)
		os.Exit(2)
	}
	if os.Args[2] == "--replay" {
		if len(os.Args) < 4 {
			fmt.Fprintln(os.Stderr, "missing replay file")
			os.Exit(2)
		}
		data, err := os.ReadFile(os.Args[3])
		if err != nil {
			fmt.Fprintln(os.Stderr, err)
			os.Exit(2)
		}
		var v struct {
			Kind string          `json:"kind"`
			Key  string          `json:"key"`
			Case json.RawMessage `json:"case"`
		}
		if err := json.Unmarshal(data, &v); err != nil {
			fmt.Fprintln(os.Stderr, err)
			os.Exit(2)
		}
		if c.Replay == nil {
			fmt.Fprintln(os.Stderr, "no replay for", prop)
			os.Exit(2)
		}
		desc, failed := c.Replay(v.Kind, v.Case)
		fmt.Println(desc)
		if failed {
			fmt.Printf("VIOLATION property=%s replay=%s\n", prop, os.Args[3])
			os.Exit(1)
		}
		fmt.Println("replay: property held on this case")
		os.Exit(0)
	}
	tier := os.Args[2]
	if tier != "quick" && tier != "thorough" {
		fmt.Fprintln(os.Stderr, "tier must be quick or thorough")
		os.Exit(2)
	}
	run := ev.Start(prop, tier, c.Level)
	os.Exit(c.Run(run, tier == "thorough"))
}
