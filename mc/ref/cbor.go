// Package ref holds the reference models: an independent CBOR tokenizer and
// encoder, bitwise CRC-16/X-25 and CRC-32C, a structural model of BPv7 bundles
// and the validity predicate transcribed from the property statements. Nothing
// here shares code with cboring, howeyc/crc16 or hash/crc32.
package ref

import (
	"errors"
	"fmt"
)

// Item is one CBOR data item located in a buffer.
type Item struct {
	Start   int    // offset of the initial byte
	HeadLen int    // bytes of head (initial byte + argument)
	Major   byte   // 0..7
	Info    byte   // additional information (low 5 bits)
	Val     uint64 // argument
	Indef   bool   // indefinite length array (0x9f)
	End     int    // offset one past the item (including children / content)
	Kids    []Item // array / map children (map: 2*n)
}

// Content returns the content range of a byte/text string.
func (it Item) Content() (int, int) { return it.Start + it.HeadLen, it.End }

var ErrTrunc = errors.New("truncated")

// Tokenize parses one item at off. Only definite maps/arrays/strings and the
// indefinite array are supported (that is all BPv7 uses).
func Tokenize(b []byte, off int, depth int) (Item, error) {
	if depth > 16 {
		return Item{}, errors.New("too deep")
	}
	if off >= len(b) {
		return Item{}, ErrTrunc
	}
	ib := b[off]
	it := Item{Start: off, Major: ib >> 5, Info: ib & 0x1f, HeadLen: 1}
	switch {
	case ib == 0x9f:
		it.Indef = true
		p := off + 1
		for {
			if p >= len(b) {
				return it, ErrTrunc
			}
			if b[p] == 0xff {
				p++
				break
			}
			k, err := Tokenize(b, p, depth+1)
			if err != nil {
				return it, err
			}
			it.Kids = append(it.Kids, k)
			p = k.End
		}
		it.End = p
		return it, nil
	case it.Info < 24:
		it.Val = uint64(it.Info)
	case it.Info <= 27:
		n := 1 << (it.Info - 24)
		if off+1+n > len(b) {
			return it, ErrTrunc
		}
		for i := 0; i < n; i++ {
			it.Val = it.Val<<8 | uint64(b[off+1+i])
		}
		it.HeadLen = 1 + n
	default:
		return it, fmt.Errorf("unsupported additional info %d at %d", it.Info, off)
	}
	p := off + it.HeadLen
	switch it.Major {
	case 0, 1, 7:
		it.End = p
	case 2, 3:
		if it.Val > uint64(len(b)-p) {
			return it, ErrTrunc
		}
		it.End = p + int(it.Val)
	case 4, 5:
		n := it.Val
		if it.Major == 5 {
			if n > 1<<20 {
				return it, errors.New("map too large")
			}
			n *= 2
		}
		if n > uint64(len(b)) {
			return it, ErrTrunc
		}
		for i := uint64(0); i < n; i++ {
			k, err := Tokenize(b, p, depth+1)
			if err != nil {
				return it, err
			}
			it.Kids = append(it.Kids, k)
			p = k.End
		}
		it.End = p
	case 6:
		k, err := Tokenize(b, p, depth+1)
		if err != nil {
			return it, err
		}
		it.Kids = []Item{k}
		it.End = k.End
	}
	return it, nil
}

// Walk calls f on it and all descendants.
func (it Item) Walk(f func(Item)) {
	f(it)
	for _, k := range it.Kids {
		k.Walk(f)
	}
}

// ---------------------------------------------------------------------------
// encoder

type Enc struct{ B []byte }

// Head appends a head for major type m with argument n using the shortest form.
func (e *Enc) Head(m byte, n uint64) { e.B = AppendHead(e.B, m, n, 0) }

// AppendHead appends a head; width 0 = minimal, else 1,2,4,8 argument bytes
// (or -1 = in the initial byte, only valid for n < 24).
func AppendHead(b []byte, m byte, n uint64, width int) []byte {
	if width == 0 {
		switch {
		case n < 24:
			width = -1
		case n < 1<<8:
			width = 1
		case n < 1<<16:
			width = 2
		case n < 1<<32:
			width = 4
		default:
			width = 8
		}
	}
	if width == -1 {
		return append(b, m<<5|byte(n))
	}
	info := map[int]byte{1: 24, 2: 25, 4: 26, 8: 27}[width]
	b = append(b, m<<5|info)
	for i := width - 1; i >= 0; i-- {
		b = append(b, byte(n>>(8*uint(i))))
	}
	return b
}

func (e *Enc) UInt(n uint64)  { e.Head(0, n) }
func (e *Enc) Bytes(d []byte) { e.Head(2, uint64(len(d))); e.B = append(e.B, d...) }
func (e *Enc) Text(s string)  { e.Head(3, uint64(len(s))); e.B = append(e.B, s...) }
func (e *Enc) Array(n uint64) { e.Head(4, n) }
func (e *Enc) Map(n uint64)   { e.Head(5, n) }
func (e *Enc) Raw(d ...byte)  { e.B = append(e.B, d...) }
func (e *Enc) Bool(v bool) {
	if v {
		e.Raw(0xf5)
	} else {
		e.Raw(0xf4)
	}
}

// ---------------------------------------------------------------------------
// CRCs, bit by bit

// CRC16X25: poly 0x1021 reflected, init 0xffff, xorout 0xffff.
func CRC16X25(d []byte) uint16 {
	crc := uint16(0xffff)
	for _, by := range d {
		crc ^= uint16(by)
		for i := 0; i < 8; i++ {
			if crc&1 != 0 {
				crc = crc>>1 ^ 0x8408
			} else {
				crc >>= 1
			}
		}
	}
	return ^crc
}

// CRC32C: Castagnoli, poly 0x1EDC6F41 reflected, init/xorout 0xffffffff.
func CRC32C(d []byte) uint32 {
	crc := uint32(0xffffffff)
	for _, by := range d {
		crc ^= uint32(by)
		for i := 0; i < 8; i++ {
			if crc&1 != 0 {
				crc = crc>>1 ^ 0x82F63B78
			} else {
				crc >>= 1
			}
		}
	}
	return ^crc
}

// CRCBytes computes the big-endian CRC bytes of the given type (1 or 2) over d.
func CRCBytes(t uint64, d []byte) []byte {
	switch t {
	case 1:
		c := CRC16X25(d)
		return []byte{byte(c >> 8), byte(c)}
	case 2:
		c := CRC32C(d)
		return []byte{byte(c >> 24), byte(c >> 16), byte(c >> 8), byte(c)}
	}
	return nil
}
