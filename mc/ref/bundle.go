package ref

import (
	"bytes"
	"errors"
	"fmt"
	"regexp"
	"sort"
	"strings"
)

// Bundle control flags (RFC 9171 / dtn-bpbis as used by dtn7-go).
const (
	FIsFragment   = 0x000001
	FAdminRecord  = 0x000002
	FMustNotFrag  = 0x000004
	FAppAck       = 0x000020
	FStatusTime   = 0x000040
	FReqReception = 0x004000
	FReqForward   = 0x010000
	FReqDelivery  = 0x020000
	FReqDeletion  = 0x040000
	FReqAny       = FReqReception | FReqForward | FReqDelivery | FReqDeletion
)

// Block control flags.
const (
	BReplicate = 0x01
	BReport    = 0x02
	BDelete    = 0x04
	BRemove    = 0x10
)

// Block type codes.
const (
	TPayload  = 1
	TPrevNode = 6
	TAge      = 7
	THopCount = 10
	TSpray    = 192
	TDTLSR    = 193
	TProphet  = 194
	TSig      = 195
)

// EID is a structural endpoint ID.
type EID struct {
	Scheme  uint64 // 1 dtn, 2 ipn
	None    bool   // dtn:none (uint SSP)
	NoneVal uint64 // the uint actually carried (0 when produced by an encoder)
	SSP     string // dtn text SSP ("//node/demux")
	Node    uint64 // ipn
	Service uint64
}

func DtnNone() EID        { return EID{Scheme: 1, None: true} }
func Dtn(ssp string) EID  { return EID{Scheme: 1, SSP: ssp} }
func Ipn(n, s uint64) EID { return EID{Scheme: 2, Node: n, Service: s} }

func (e EID) String() string {
	switch {
	case e.Scheme == 1 && e.None:
		return "dtn:none"
	case e.Scheme == 1:
		return "dtn:" + e.SSP
	case e.Scheme == 2:
		return fmt.Sprintf("ipn:%d.%d", e.Node, e.Service)
	}
	return fmt.Sprintf("scheme%d:?", e.Scheme)
}

var dtnSSP = regexp.MustCompile(`^//([\w\-._]+)/(.*)$`)

// Valid is the endpoint validity rule.
func (e EID) Valid() bool {
	switch e.Scheme {
	case 1:
		if e.None {
			return true
		}
		return dtnSSP.MatchString(e.SSP) && !strings.ContainsAny(e.SSP, "\n")
	case 2:
		return e.Node >= 1 && e.Service >= 1
	}
	return false
}

// NodeName returns the authority (node) part used for same-node comparison.
func (e EID) NodeName() string {
	if e.Scheme == 1 {
		if e.None {
			return "none"
		}
		m := dtnSSP.FindStringSubmatch(e.SSP)
		if m == nil {
			return ""
		}
		return m[1]
	}
	return fmt.Sprint(e.Node)
}

func (e EID) Encode(enc *Enc) {
	enc.Array(2)
	enc.UInt(e.Scheme)
	switch {
	case e.Scheme == 1 && e.None:
		enc.UInt(e.NoneVal)
	case e.Scheme == 1:
		enc.Text(e.SSP)
	default:
		enc.Array(2)
		enc.UInt(e.Node)
		enc.UInt(e.Service)
	}
}

func decodeEID(b []byte, it Item) (EID, error) {
	if it.Major != 4 || it.Indef || len(it.Kids) != 2 || it.Kids[0].Major != 0 {
		return EID{}, errors.New("eid: not [scheme, ssp]")
	}
	e := EID{Scheme: it.Kids[0].Val}
	s := it.Kids[1]
	switch e.Scheme {
	case 1:
		switch s.Major {
		case 0:
			e.None = true
			e.NoneVal = s.Val
		case 3:
			a, z := s.Content()
			e.SSP = string(b[a:z])
		default:
			return e, errors.New("eid: dtn ssp major")
		}
	case 2:
		if s.Major != 4 || len(s.Kids) != 2 || s.Kids[0].Major != 0 || s.Kids[1].Major != 0 {
			return e, errors.New("eid: ipn ssp")
		}
		e.Node, e.Service = s.Kids[0].Val, s.Kids[1].Val
	default:
		return e, fmt.Errorf("eid: unknown scheme %d", e.Scheme)
	}
	return e, nil
}

type Primary struct {
	Version  uint64
	Flags    uint64
	CRCType  uint64
	Dst, Src EID
	Rpt      EID
	Time     uint64
	Seq      uint64
	Lifetime uint64
	FragOff  uint64
	Total    uint64
	CRC      []byte // as decoded
	HasCRC   bool   // CRC element present (decoded) / to be written (encode: CRCType != 0)
	HasFrag  bool   // fragment fields present
}

type Block struct {
	Type    uint64
	Num     uint64
	Flags   uint64
	CRCType uint64
	Data    []byte // content of the block-type-specific byte string
	CRC     []byte
	HasCRC  bool
	// location in the decoded buffer
	Start, End int
}

type Bundle struct {
	P      Primary
	Blocks []Block
	PStart int
	PEnd   int
}

// Clone deep-copies a bundle.
func (b Bundle) Clone() Bundle {
	c := b
	c.Blocks = make([]Block, len(b.Blocks))
	for i, bl := range b.Blocks {
		bl.Data = append([]byte(nil), bl.Data...)
		c.Blocks[i] = bl
	}
	return c
}

func (p Primary) IsFragment() bool { return p.Flags&FIsFragment != 0 }

// EncodePrimary writes the primary block; the fragment fields are written iff
// the fragment flag is set, the CRC iff CRCType is 1 or 2 (computed here).
func (p Primary) Encode(enc *Enc) {
	start := len(enc.B)
	n := uint64(8)
	frag := p.IsFragment()
	crc := p.CRCType == 1 || p.CRCType == 2
	if frag {
		n += 2
	}
	if crc {
		n++
	}
	enc.Array(n)
	enc.UInt(p.Version)
	enc.UInt(p.Flags)
	enc.UInt(p.CRCType)
	p.Dst.Encode(enc)
	p.Src.Encode(enc)
	p.Rpt.Encode(enc)
	enc.Array(2)
	enc.UInt(p.Time)
	enc.UInt(p.Seq)
	enc.UInt(p.Lifetime)
	if frag {
		enc.UInt(p.FragOff)
		enc.UInt(p.Total)
	}
	if crc {
		l := 2
		if p.CRCType == 2 {
			l = 4
		}
		enc.Bytes(make([]byte, l))
		c := CRCBytes(p.CRCType, enc.B[start:])
		copy(enc.B[len(enc.B)-l:], c)
	}
}

func (bl Block) Encode(enc *Enc) {
	start := len(enc.B)
	crc := bl.CRCType == 1 || bl.CRCType == 2
	if crc {
		enc.Array(6)
	} else {
		enc.Array(5)
	}
	enc.UInt(bl.Type)
	enc.UInt(bl.Num)
	enc.UInt(bl.Flags)
	enc.UInt(bl.CRCType)
	enc.Bytes(bl.Data)
	if crc {
		l := 2
		if bl.CRCType == 2 {
			l = 4
		}
		enc.Bytes(make([]byte, l))
		c := CRCBytes(bl.CRCType, enc.B[start:])
		copy(enc.B[len(enc.B)-l:], c)
	}
}

// Encode serialises the bundle in the order given (no sorting).
func (b Bundle) Encode() []byte {
	enc := &Enc{}
	enc.Raw(0x9f)
	b.P.Encode(enc)
	for _, bl := range b.Blocks {
		bl.Encode(enc)
	}
	enc.Raw(0xff)
	return enc.B
}

// Decode parses the structure of an encoded bundle (no validity rules, no CRC
// verification; see CRCMismatches). Trailing bytes after the break are ignored,
// as a stream parser would.
func Decode(b []byte) (Bundle, error) {
	var out Bundle
	top, err := Tokenize(b, 0, 0)
	if err != nil {
		return out, err
	}
	if !top.Indef {
		return out, errors.New("bundle: not an indefinite array")
	}
	if len(top.Kids) < 1 {
		return out, errors.New("bundle: no primary block")
	}
	pi := top.Kids[0]
	if pi.Major != 4 || len(pi.Kids) < 8 || len(pi.Kids) > 11 {
		return out, errors.New("primary: bad array")
	}
	k := pi.Kids
	for _, i := range []int{0, 1, 2} {
		if k[i].Major != 0 {
			return out, errors.New("primary: field not uint")
		}
	}
	p := Primary{Version: k[0].Val, Flags: k[1].Val, CRCType: k[2].Val}
	if p.Dst, err = decodeEID(b, k[3]); err != nil {
		return out, err
	}
	if p.Src, err = decodeEID(b, k[4]); err != nil {
		return out, err
	}
	if p.Rpt, err = decodeEID(b, k[5]); err != nil {
		return out, err
	}
	if k[6].Major != 4 || len(k[6].Kids) != 2 || k[6].Kids[0].Major != 0 || k[6].Kids[1].Major != 0 {
		return out, errors.New("primary: timestamp")
	}
	p.Time, p.Seq = k[6].Kids[0].Val, k[6].Kids[1].Val
	if k[7].Major != 0 {
		return out, errors.New("primary: lifetime")
	}
	p.Lifetime = k[7].Val
	n := len(k)
	if n == 10 || n == 11 {
		if k[8].Major != 0 || k[9].Major != 0 {
			return out, errors.New("primary: fragment fields")
		}
		p.HasFrag = true
		p.FragOff, p.Total = k[8].Val, k[9].Val
	}
	if n == 9 || n == 11 {
		c := k[n-1]
		if c.Major != 2 {
			return out, errors.New("primary: crc not bytes")
		}
		a, z := c.Content()
		p.CRC = append([]byte(nil), b[a:z]...)
		p.HasCRC = true
	}
	out.P = p
	out.PStart, out.PEnd = pi.Start, pi.End
	for _, bi := range top.Kids[1:] {
		if bi.Major != 4 || (len(bi.Kids) != 5 && len(bi.Kids) != 6) {
			return out, errors.New("block: bad array")
		}
		k := bi.Kids
		for i := 0; i < 4; i++ {
			if k[i].Major != 0 {
				return out, errors.New("block: field not uint")
			}
		}
		if k[4].Major != 2 {
			return out, errors.New("block: data not bytes")
		}
		a, z := k[4].Content()
		bl := Block{Type: k[0].Val, Num: k[1].Val, Flags: k[2].Val, CRCType: k[3].Val,
			Data: append([]byte(nil), b[a:z]...), Start: bi.Start, End: bi.End}
		if len(k) == 6 {
			if k[5].Major != 2 {
				return out, errors.New("block: crc not bytes")
			}
			a, z := k[5].Content()
			bl.CRC = append([]byte(nil), b[a:z]...)
			bl.HasCRC = true
		}
		out.Blocks = append(out.Blocks, bl)
	}
	return out, nil
}

// CRCMismatches independently delimits every block of the encoding and returns
// a description for each block whose declared CRC does not equal the CRC
// computed over the block bytes with the CRC field zeroed, or whose CRC
// presence/length contradicts its declared type.
func CRCMismatches(enc []byte) ([]string, error) {
	top, err := Tokenize(enc, 0, 0)
	if err != nil {
		return nil, err
	}
	if !top.Indef || len(top.Kids) == 0 {
		return nil, errors.New("not a bundle")
	}
	var bad []string
	for i, it := range top.Kids {
		if it.Major != 4 {
			return nil, errors.New("block not array")
		}
		var ct uint64
		var has bool
		n := len(it.Kids)
		if i == 0 {
			if n < 8 || n > 11 || it.Kids[2].Major != 0 {
				return nil, errors.New("primary malformed")
			}
			ct = it.Kids[2].Val
			has = n == 9 || n == 11
		} else {
			if (n != 5 && n != 6) || it.Kids[3].Major != 0 {
				return nil, errors.New("canonical malformed")
			}
			ct = it.Kids[3].Val
			has = n == 6
		}
		want := 0
		switch ct {
		case 0:
		case 1:
			want = 2
		case 2:
			want = 4
		default:
			bad = append(bad, fmt.Sprintf("block %d: unknown crc type %d", i, ct))
			continue
		}
		if !has {
			if want != 0 {
				bad = append(bad, fmt.Sprintf("block %d: crc type %d but no crc field", i, ct))
			}
			continue
		}
		c := it.Kids[n-1]
		if c.Major != 2 {
			return nil, errors.New("crc not bytes")
		}
		a, z := c.Content()
		if z-a != want {
			bad = append(bad, fmt.Sprintf("block %d: crc field of %d bytes for type %d", i, z-a, ct))
			continue
		}
		cp := append([]byte(nil), enc[it.Start:it.End]...)
		for j := a - it.Start; j < z-it.Start; j++ {
			cp[j] = 0
		}
		if !bytes.Equal(CRCBytes(ct, cp), enc[a:z]) {
			bad = append(bad, fmt.Sprintf("block %d: crc mismatch", i))
		}
	}
	return bad, nil
}

// ---------------------------------------------------------------------------
// validity predicate (C02), transcribed from the property statement.

// Rules returns the names of the structural rules the bundle violates. nowDtn
// is the current time in DTN milliseconds (for the lifetime rule).
func (b Bundle) Rules(nowDtn uint64) []string {
	var v []string
	add := func(s string) { v = append(v, s) }
	p := b.P
	if p.Version != 7 {
		add("version")
	}
	for _, e := range []EID{p.Dst, p.Src, p.Rpt} {
		if !e.Valid() {
			add("eid")
			break
		}
	}
	if p.Flags&FIsFragment != 0 && p.Flags&FMustNotFrag != 0 {
		add("fragment+mustnotfragment")
	}
	anon := p.Src.Scheme == 1 && p.Src.None
	if p.Flags&FAdminRecord != 0 && p.Flags&FReqAny != 0 {
		add("admin+request")
	}
	if anon && p.Flags&FReqAny != 0 {
		add("anon+request")
	}
	if anon && p.Flags&FMustNotFrag == 0 {
		add("anon-without-mustnotfragment")
	}
	nums := map[uint64]int{}
	types := map[uint64]int{}
	payloads := 0
	var age *uint64
	for i := range b.Blocks {
		bl := b.Blocks[i]
		nums[bl.Num]++
		types[bl.Type]++
		if bl.Type == TPayload {
			payloads++
			if bl.Num != 1 {
				add("payload-number")
			}
		}
		if (p.Flags&FAdminRecord != 0 || anon) && bl.Flags&BReport != 0 {
			add("admin/anon+report-block")
		}
		switch bl.Type {
		case TPrevNode:
			it, err := Tokenize(bl.Data, 0, 0)
			if err != nil {
				add("prevnode-malformed")
				break
			}
			e, err := decodeEID(bl.Data, it)
			if err != nil || !e.Valid() {
				add("eid")
			}
		case TAge:
			it, err := Tokenize(bl.Data, 0, 0)
			if err != nil || it.Major != 0 {
				add("age-malformed")
				break
			}
			a := it.Val
			age = &a
		case THopCount:
			it, err := Tokenize(bl.Data, 0, 0)
			if err != nil || it.Major != 4 || len(it.Kids) != 2 {
				add("hopcount-malformed")
				break
			}
			if it.Kids[1].Val > it.Kids[0].Val {
				add("hopcount-exceeded")
			}
		}
	}
	if payloads != 1 {
		add("payload-count")
	}
	if len(b.Blocks) == 0 || b.Blocks[len(b.Blocks)-1].Type != TPayload {
		add("payload-not-last")
	}
	for _, c := range nums {
		if c > 1 {
			add("dup-number")
			break
		}
	}
	for _, c := range types {
		if c > 1 {
			add("dup-type")
			break
		}
	}
	if p.Time == 0 {
		if age == nil {
			add("zero-time-without-age")
		} else if *age > p.Lifetime {
			add("lifetime")
		}
	} else if nowDtn > p.Time+p.Lifetime && p.Time+p.Lifetime >= p.Time {
		add("lifetime")
	}
	sort.Strings(v)
	// dedup
	out := v[:0]
	for i, s := range v {
		if i == 0 || v[i-1] != s {
			out = append(out, s)
		}
	}
	return out
}

// ID is the bundle ID as a string (source, time, seq and the fragment part).
func (b Bundle) ID() string {
	s := fmt.Sprintf("%s-%d-%d", b.P.Src, b.P.Time, b.P.Seq)
	if b.P.IsFragment() {
		s += fmt.Sprintf("-%d-%d", b.P.FragOff, b.P.Total)
	}
	return s
}

// Payload returns the data of the payload block (type 1), if any.
func (b Bundle) Payload() ([]byte, bool) {
	for _, bl := range b.Blocks {
		if bl.Type == TPayload {
			return bl.Data, true
		}
	}
	return nil, false
}

// Find returns the first block of the given type.
func (b Bundle) Find(t uint64) *Block {
	for i := range b.Blocks {
		if b.Blocks[i].Type == t {
			return &b.Blocks[i]
		}
	}
	return nil
}

// Diff compares two decoded bundles field by field; mapTypes lists block types
// whose Data is a CBOR map wrapped in an array or bare map for which entry
// order is unspecified (compared as sets of key/value encodings).
func Diff(a, b Bundle) []string {
	var d []string
	pa, pb := a.P, b.P
	pa.CRC, pb.CRC = nil, nil
	pa.HasCRC, pb.HasCRC = false, false
	pa.HasFrag, pb.HasFrag = false, false
	pa.Dst.NoneVal, pb.Dst.NoneVal = 0, 0
	pa.Src.NoneVal, pb.Src.NoneVal = 0, 0
	pa.Rpt.NoneVal, pb.Rpt.NoneVal = 0, 0
	if fmt.Sprintf("%+v", pa) != fmt.Sprintf("%+v", pb) {
		d = append(d, fmt.Sprintf("primary: %+v vs %+v", pa, pb))
	}
	if len(a.Blocks) != len(b.Blocks) {
		d = append(d, fmt.Sprintf("block count %d vs %d", len(a.Blocks), len(b.Blocks)))
		return d
	}
	for i := range a.Blocks {
		x, y := a.Blocks[i], b.Blocks[i]
		if x.Type != y.Type || x.Num != y.Num || x.Flags != y.Flags || x.CRCType != y.CRCType {
			d = append(d, fmt.Sprintf("block %d header: %d/%d/%x/%d vs %d/%d/%x/%d", i, x.Type, x.Num, x.Flags, x.CRCType, y.Type, y.Num, y.Flags, y.CRCType))
			continue
		}
		if !bytes.Equal(x.Data, y.Data) {
			if (x.Type == TProphet || x.Type == TDTLSR) && mapEqual(x.Type, x.Data, y.Data) {
				continue
			}
			d = append(d, fmt.Sprintf("block %d (type %d) data: %x vs %x", i, x.Type, trunc(x.Data), trunc(y.Data)))
		}
	}
	return d
}

func trunc(b []byte) []byte {
	if len(b) > 48 {
		return b[:48]
	}
	return b
}

func mapEqual(t uint64, a, b []byte) bool {
	ka, ok1 := mapEntries(t, a)
	kb, ok2 := mapEntries(t, b)
	if !ok1 || !ok2 || len(ka) != len(kb) {
		return false
	}
	for i := range ka {
		if ka[i] != kb[i] {
			return false
		}
	}
	return true
}

func mapEntries(t uint64, d []byte) ([]string, bool) {
	it, err := Tokenize(d, 0, 0)
	if err != nil {
		return nil, false
	}
	var out []string
	m := it
	if t == TDTLSR {
		if it.Major != 4 || len(it.Kids) != 3 {
			return nil, false
		}
		out = append(out, "hdr:"+string(d[it.Kids[0].Start:it.Kids[1].End]))
		m = it.Kids[2]
	}
	if m.Major != 5 {
		return nil, false
	}
	for i := 0; i+1 < len(m.Kids); i += 2 {
		out = append(out, string(d[m.Kids[i].Start:m.Kids[i+1].End]))
	}
	sort.Strings(out[len(out)-len(m.Kids)/2:])
	return out, true
}
