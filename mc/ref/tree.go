package ref

import (
	"errors"
)

// Node is an editable CBOR tree. Byte strings that are known to carry CBOR
// (block-type-specific data of CBOR-valued blocks, administrative records) can
// be opened into Inner so that edits inside them keep the enclosing length
// consistent.
type Node struct {
	Major   byte
	Val     uint64  // argument (uint value, simple/float bits, tag); for strings/arrays/maps derived on Emit unless Lie is set
	Indef   bool    // indefinite-length array
	Kids    []*Node // array / map children
	Bytes   []byte  // string content (when Inner == nil)
	Inner   []*Node // byte string content as a sequence of CBOR items
	Trail   []byte  // extra bytes appended after Inner items inside the byte string
	Width   int     // 0 minimal, 1/2/4/8 forced argument width
	Lie     *uint64 // if set, the head carries this argument instead of the true length/count
	NoBreak bool    // indefinite array emitted without its break byte
}

// ParseTree builds the tree of one item. openBstr decides whether the byte
// string at the given path should be opened as CBOR.
func ParseTree(b []byte) (*Node, error) {
	it, err := Tokenize(b, 0, 0)
	if err != nil {
		return nil, err
	}
	return fromItem(b, it), nil
}

func fromItem(b []byte, it Item) *Node {
	n := &Node{Major: it.Major, Val: it.Val, Indef: it.Indef}
	if it.Indef {
		n.Major = 4
	}
	switch n.Major {
	case 2, 3:
		a, z := it.Content()
		n.Bytes = append([]byte(nil), b[a:z]...)
	case 4, 5, 6:
		for _, k := range it.Kids {
			n.Kids = append(n.Kids, fromItem(b, k))
		}
	}
	return n
}

// Open parses the content of a byte-string node as a sequence of CBOR items.
func (n *Node) Open() error {
	if n.Major != 2 || n.Inner != nil {
		return errors.New("not an unopened byte string")
	}
	off := 0
	var items []*Node
	for off < len(n.Bytes) {
		it, err := Tokenize(n.Bytes, off, 0)
		if err != nil {
			return err
		}
		items = append(items, fromItem(n.Bytes, it))
		off = it.End
	}
	if len(items) == 0 {
		return errors.New("empty")
	}
	n.Inner = items
	return nil
}

// Emit encodes the tree.
func (n *Node) Emit(out []byte) []byte {
	arg := func(true_ uint64) uint64 {
		if n.Lie != nil {
			return *n.Lie
		}
		return true_
	}
	switch n.Major {
	case 0, 1, 7, 6:
		if n.Major == 7 && n.Val < 24 && n.Width == 0 {
			out = append(out, 7<<5|byte(n.Val))
		} else if n.Major == 7 {
			w := n.Width
			if w == 0 {
				// keep floats / simple values in their natural width
				switch {
				case n.Val < 1<<8:
					w = 1
				case n.Val < 1<<16:
					w = 2
				case n.Val < 1<<32:
					w = 4
				default:
					w = 8
				}
			}
			out = AppendHead(out, 7, n.Val, w)
		} else {
			out = AppendHead(out, n.Major, arg(n.Val), n.Width)
		}
		for _, k := range n.Kids {
			out = k.Emit(out)
		}
	case 2, 3:
		content := n.Bytes
		if n.Inner != nil {
			content = nil
			for _, k := range n.Inner {
				content = k.Emit(content)
			}
			content = append(content, n.Trail...)
		}
		out = AppendHead(out, n.Major, arg(uint64(len(content))), n.Width)
		out = append(out, content...)
	case 4, 5:
		if n.Indef {
			out = append(out, 0x9f)
			for _, k := range n.Kids {
				out = k.Emit(out)
			}
			if !n.NoBreak {
				out = append(out, 0xff)
			}
			return out
		}
		cnt := uint64(len(n.Kids))
		if n.Major == 5 {
			cnt /= 2
		}
		out = AppendHead(out, n.Major, arg(cnt), n.Width)
		for _, k := range n.Kids {
			out = k.Emit(out)
		}
	}
	return out
}

// Walk visits the node, its children and opened inner items in emission order.
func (n *Node) WalkNodes(f func(*Node)) {
	f(n)
	for _, k := range n.Kids {
		k.WalkNodes(f)
	}
	for _, k := range n.Inner {
		k.WalkNodes(f)
	}
}

// U makes a uint node; B a byte string; T a text string; A an array.
func U(v uint64) *Node   { return &Node{Major: 0, Val: v} }
func B(d []byte) *Node   { return &Node{Major: 2, Bytes: d} }
func T(s string) *Node   { return &Node{Major: 3, Bytes: []byte(s)} }
func A(k ...*Node) *Node { return &Node{Major: 4, Kids: k} }

// cborBlockTypes lists block types whose data is CBOR.
var cborBlockTypes = map[uint64]bool{TPrevNode: true, TAge: true, THopCount: true, TSpray: true, TDTLSR: true, TProphet: true, TSig: true}

// ParseBundleTree parses an encoded bundle into a tree and opens the data of
// CBOR-valued canonical blocks (and, if admin is set, the payload).
func ParseBundleTree(enc []byte, admin bool) (*Node, error) {
	root, err := ParseTree(enc)
	if err != nil {
		return nil, err
	}
	if !root.Indef && root.Major != 4 {
		return nil, errors.New("not an array")
	}
	for i, blk := range root.Kids {
		if i == 0 || blk.Major != 4 || len(blk.Kids) < 5 {
			continue
		}
		t := blk.Kids[0]
		d := blk.Kids[4]
		if t.Major == 0 && d.Major == 2 && (cborBlockTypes[t.Val] || (admin && t.Val == TPayload)) {
			_ = d.Open()
		}
	}
	return root, nil
}

// FixCRCs recomputes the CRC value of every block of a bundle tree that carries
// a CRC field (primary with 9/11 elements, canonical with 6) and declares type
// 1 or 2; other blocks are left alone.
func FixCRCs(root *Node) {
	for i, blk := range root.Kids {
		if blk.Major != 4 {
			continue
		}
		n := len(blk.Kids)
		var ct *Node
		has := false
		if i == 0 {
			if n >= 3 {
				ct = blk.Kids[2]
			}
			has = n == 9 || n == 11
		} else {
			if n >= 4 {
				ct = blk.Kids[3]
			}
			has = n == 6
		}
		if ct == nil || ct.Major != 0 || !has {
			continue
		}
		c := blk.Kids[n-1]
		if c.Major != 2 {
			continue
		}
		l := 0
		switch ct.Val {
		case 1:
			l = 2
		case 2:
			l = 4
		default:
			continue
		}
		c.Inner = nil
		c.Bytes = make([]byte, l)
		enc := blk.Emit(nil)
		c.Bytes = CRCBytes(ct.Val, enc)
	}
}
