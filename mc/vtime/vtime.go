// Package vtime is an API-compatible stand-in for package time with a
// harness-owned virtual clock. In real mode (the default) everything passes
// through to package time. In virtual mode Now/Since/Until read the virtual
// clock and timers fire only when the harness calls Advance.
package vtime

import (
	"container/heap"
	"sync"
	"time"
)

type (
	Time       = time.Time
	Duration   = time.Duration
	Month      = time.Month
	Weekday    = time.Weekday
	Location   = time.Location
	ParseError = time.ParseError
)

const (
	Nanosecond  = time.Nanosecond
	Microsecond = time.Microsecond
	Millisecond = time.Millisecond
	Second      = time.Second
	Minute      = time.Minute
	Hour        = time.Hour

	ANSIC       = time.ANSIC
	UnixDate    = time.UnixDate
	RFC822      = time.RFC822
	RFC1123     = time.RFC1123
	RFC3339     = time.RFC3339
	RFC3339Nano = time.RFC3339Nano
	Kitchen     = time.Kitchen
	Stamp       = time.Stamp
	StampMilli  = time.StampMilli
	StampMicro  = time.StampMicro
	StampNano   = time.StampNano

	January   = time.January
	February  = time.February
	March     = time.March
	April     = time.April
	May       = time.May
	June      = time.June
	July      = time.July
	August    = time.August
	September = time.September
	October   = time.October
	November  = time.November
	December  = time.December
)

var (
	UTC   = time.UTC
	Local = time.Local
)

func Unix(sec, nsec int64) Time { return time.Unix(sec, nsec) }
func UnixMilli(ms int64) Time   { return time.UnixMilli(ms) }
func UnixMicro(us int64) Time   { return time.UnixMicro(us) }
func Date(y int, m Month, d, h, mi, s, ns int, l *Location) Time {
	return time.Date(y, m, d, h, mi, s, ns, l)
}
func Parse(layout, value string) (Time, error)    { return time.Parse(layout, value) }
func ParseDuration(s string) (Duration, error)    { return time.ParseDuration(s) }
func FixedZone(name string, off int) *Location    { return time.FixedZone(name, off) }
func LoadLocation(name string) (*Location, error) { return time.LoadLocation(name) }

// ---------------------------------------------------------------------------
// virtual clock

type vtimer struct {
	when   time.Time
	seq    int64
	period time.Duration // >0: ticker
	ch     chan Time
	fn     func()
	stop   chan struct{} // closed when stopped (tickers)
	dead   bool
	index  int
}

type theap []*vtimer

func (h theap) Len() int { return len(h) }
func (h theap) Less(i, j int) bool {
	if h[i].when.Equal(h[j].when) {
		return h[i].seq < h[j].seq
	}
	return h[i].when.Before(h[j].when)
}
func (h theap) Swap(i, j int)       { h[i], h[j] = h[j], h[i]; h[i].index = i; h[j].index = j }
func (h *theap) Push(x interface{}) { t := x.(*vtimer); t.index = len(*h); *h = append(*h, t) }
func (h *theap) Pop() interface{} {
	old := *h
	n := len(old)
	t := old[n-1]
	*h = old[:n-1]
	t.index = -1
	return t
}

var handoffTimer *time.Timer // only used by Advance (single harness goroutine)

var (
	mu      sync.Mutex
	virtual bool
	now     time.Time
	timers  theap
	seq     int64
	// Undelivered counts ticker ticks dropped because the receiver did not take
	// them within the hand-off window (mirrors real tickers dropping ticks).
	Undelivered int64
)

// Epoch is the instant at which the virtual clock starts.
var Epoch = time.Date(2026, 1, 1, 0, 0, 0, 0, time.UTC)

// SetVirtual switches to the virtual clock, set to t, and forgets all timers.
func SetVirtual(t time.Time) {
	mu.Lock()
	virtual = true
	now = t
	for _, tm := range timers {
		tm.dead = true
	}
	timers = nil
	mu.Unlock()
}

// SetReal switches back to the real clock.
func SetReal() {
	mu.Lock()
	virtual = false
	timers = nil
	mu.Unlock()
}

func IsVirtual() bool { mu.Lock(); defer mu.Unlock(); return virtual }

// PendingTimers returns the number of armed virtual timers.
func PendingTimers() int { mu.Lock(); defer mu.Unlock(); return len(timers) }

// NextDeadline returns the earliest armed deadline, if any.
func NextDeadline() (time.Time, bool) {
	mu.Lock()
	defer mu.Unlock()
	if len(timers) == 0 {
		return time.Time{}, false
	}
	return timers[0].when, true
}

// Set moves the virtual clock to t without firing timers (only forwards).
func Set(t time.Time) {
	mu.Lock()
	if t.After(now) {
		now = t
	}
	mu.Unlock()
}

// Advance moves the virtual clock forward by d, firing due timers in deadline
// order. One-shot timers deliver into their buffered channel; ticker ticks are
// handed off synchronously (the receiving loop has taken the tick when Advance
// continues) unless the ticker is stopped; a tick nobody takes within
// handoffWait of real time is dropped and counted in Undelivered.
func Advance(d time.Duration) {
	mu.Lock()
	target := now.Add(d)
	for len(timers) > 0 && !timers[0].when.After(target) {
		t := heap.Pop(&timers).(*vtimer)
		if t.dead {
			continue
		}
		if t.when.After(now) {
			now = t.when
		}
		fireAt := now
		if t.period > 0 {
			t.when = t.when.Add(t.period)
			seq++
			t.seq = seq
			heap.Push(&timers, t)
		} else {
			t.dead = true
		}
		mu.Unlock()
		switch {
		case t.fn != nil:
			go t.fn()
		case t.period > 0:
			select {
			case t.ch <- fireAt:
			case <-t.stop:
			default:
				// receiver busy: wait for it with a (reused) real-time bound
				if handoffTimer == nil {
					handoffTimer = time.NewTimer(handoffWait)
				} else {
					handoffTimer.Reset(handoffWait)
				}
				select {
				case t.ch <- fireAt:
				case <-t.stop:
				case <-handoffTimer.C:
					mu.Lock()
					Undelivered++
					mu.Unlock()
				}
				if !handoffTimer.Stop() {
					select {
					case <-handoffTimer.C:
					default:
					}
				}
			}
		default:
			select {
			case t.ch <- fireAt:
			default:
			}
		}
		mu.Lock()
	}
	now = target
	mu.Unlock()
}

const handoffWait = 20 * time.Second

// Jump moves the virtual clock forward by d without firing anything: every
// armed timer and ticker is shifted by d as well, as if the loops owning them
// had not been scheduled meanwhile. Harnesses use it when only the passage of
// time matters (expiry, ageing) and no timer of the system under test does.
func Jump(d time.Duration) {
	mu.Lock()
	now = now.Add(d)
	for _, t := range timers {
		t.when = t.when.Add(d)
	}
	mu.Unlock()
}

func Now() Time {
	mu.Lock()
	if virtual {
		t := now
		mu.Unlock()
		return t
	}
	mu.Unlock()
	return time.Now()
}

func Since(t Time) Duration { return Now().Sub(t) }
func Until(t Time) Duration { return t.Sub(Now()) }

func arm(d time.Duration, period time.Duration, fn func(), buffered bool) *vtimer {
	// caller holds mu
	seq++
	c := 0
	if buffered {
		c = 1
	}
	t := &vtimer{when: now.Add(d), seq: seq, period: period, fn: fn, ch: make(chan Time, c), stop: make(chan struct{})}
	heap.Push(&timers, t)
	return t
}

func After(d Duration) <-chan Time {
	mu.Lock()
	if !virtual {
		mu.Unlock()
		return time.After(d)
	}
	t := arm(d, 0, nil, true)
	mu.Unlock()
	return t.ch
}

func Tick(d Duration) <-chan Time { return NewTicker(d).C }

func Sleep(d Duration) {
	mu.Lock()
	if !virtual {
		mu.Unlock()
		time.Sleep(d)
		return
	}
	if d <= 0 {
		mu.Unlock()
		return
	}
	t := arm(d, 0, nil, true)
	mu.Unlock()
	<-t.ch
}

// Timer mirrors time.Timer.
type Timer struct {
	C  <-chan Time
	rt *time.Timer
	vt *vtimer
}

func NewTimer(d Duration) *Timer {
	mu.Lock()
	if !virtual {
		mu.Unlock()
		rt := time.NewTimer(d)
		return &Timer{C: rt.C, rt: rt}
	}
	t := arm(d, 0, nil, true)
	mu.Unlock()
	return &Timer{C: t.ch, vt: t}
}

func AfterFunc(d Duration, f func()) *Timer {
	mu.Lock()
	if !virtual {
		mu.Unlock()
		return &Timer{rt: time.AfterFunc(d, f)}
	}
	t := arm(d, 0, f, true)
	mu.Unlock()
	return &Timer{vt: t}
}

func (t *Timer) Stop() bool {
	if t.rt != nil {
		return t.rt.Stop()
	}
	mu.Lock()
	defer mu.Unlock()
	was := !t.vt.dead
	t.vt.dead = true
	return was
}

func (t *Timer) Reset(d Duration) bool {
	if t.rt != nil {
		return t.rt.Reset(d)
	}
	mu.Lock()
	defer mu.Unlock()
	was := !t.vt.dead
	t.vt.dead = true
	seq++
	nt := &vtimer{when: now.Add(d), seq: seq, fn: t.vt.fn, ch: t.vt.ch, stop: t.vt.stop}
	heap.Push(&timers, nt)
	t.vt = nt
	return was
}

// Ticker mirrors time.Ticker.
type Ticker struct {
	C  <-chan Time
	rt *time.Ticker
	vt *vtimer
}

func NewTicker(d Duration) *Ticker {
	if d <= 0 {
		panic("non-positive interval for NewTicker")
	}
	mu.Lock()
	if !virtual {
		mu.Unlock()
		rt := time.NewTicker(d)
		return &Ticker{C: rt.C, rt: rt}
	}
	t := arm(d, d, nil, false)
	mu.Unlock()
	return &Ticker{C: t.ch, vt: t}
}

func (t *Ticker) Stop() {
	if t.rt != nil {
		t.rt.Stop()
		return
	}
	mu.Lock()
	if !t.vt.dead {
		t.vt.dead = true
		close(t.vt.stop)
	}
	mu.Unlock()
}

func (t *Ticker) Reset(d Duration) {
	if t.rt != nil {
		t.rt.Reset(d)
		return
	}
	mu.Lock()
	defer mu.Unlock()
	t.vt.dead = true
	seq++
	nt := &vtimer{when: now.Add(d), seq: seq, period: d, ch: t.vt.ch, stop: t.vt.stop}
	heap.Push(&timers, nt)
	t.vt = nt
}
