// Package vrt is the runtime of the model checker: a cooperative scheduler for
// "managed" goroutines (E3), schedule/crash points, and the goroutine spawn hook
// that vinstr substitutes for every go statement under pkg/.
//
// When no scheduler is active every entry point is a pass-through, so code
// instrumented by vinstr behaves exactly like the original.
package vrt

import (
	"bytes"
	"fmt"
	"io"
	"os"
	"reflect"
	"runtime"
	"strconv"
	"sync"
	"sync/atomic"
	"syscall"
)

// ---------------------------------------------------------------------------
// goroutine identity

func gid() int64 {
	var buf [64]byte
	n := runtime.Stack(buf[:], false)
	// "goroutine 123 [running]:..."
	b := buf[:n]
	b = b[len("goroutine "):]
	i := bytes.IndexByte(b, ' ')
	id, _ := strconv.ParseInt(string(b[:i]), 10, 64)
	return id
}

// ---------------------------------------------------------------------------
// scheduler

// Decision is one recorded scheduling decision (only points with more than one
// enabled thread are recorded).
type Decision struct {
	Enabled    []int  // thread ids in canonical order
	Chosen     int    // index into Enabled
	CurEnabled bool   // Enabled[0] is the thread that was running
	Label      string // pending operation of the chosen thread
}

// Result of one controlled execution.
type Result struct {
	Decisions  []Decision
	Deadlock   bool
	DeadInfo   string
	Diverged   bool // prefix could not be replayed
	Panic      interface{}
	PanicStack string
	Steps      int
	Faults     []string // access conflicts on tracked maps (see TrackMap)
}

type thread struct {
	id      int
	wake    chan struct{}
	enabled func() bool // nil = enabled
	label   string
	done    bool
}

type Sched struct {
	mu      sync.Mutex
	threads []*thread
	byGid   map[int64]*thread
	cur     *thread
	prefix  []int
	res     Result
	fin     chan struct{}
	aborted bool
	maxStep int
}

var (
	active   atomic.Value // *Sched or (*Sched)(nil)
	nManaged int32
	// Transient counts unmanaged goroutines started through Go that have not
	// finished yet.
	Transient int64
)

func current() (*Sched, *thread) {
	if atomic.LoadInt32(&nManaged) == 0 {
		return nil, nil
	}
	s, _ := active.Load().(*Sched)
	if s == nil {
		return nil, nil
	}
	g := gid()
	s.mu.Lock()
	th := s.byGid[g]
	s.mu.Unlock()
	if th == nil {
		return nil, nil
	}
	return s, th
}

// Managed reports whether the calling goroutine is a managed thread.
func Managed() bool {
	_, th := current()
	return th != nil
}

// ThreadID returns the managed thread id of the caller or -1.
func ThreadID() int {
	_, th := current()
	if th == nil {
		return -1
	}
	return th.id
}

// Run executes main as managed thread 0 under the scheduler, following prefix
// (indices into the canonical enabled list at each recorded decision) and the
// default choice (index 0) afterwards. It returns when every managed thread has
// finished, on deadlock, or on a panic in a managed thread.
func Run(prefix []int, maxSteps int, main func()) Result {
	s := &Sched{byGid: map[int64]*thread{}, prefix: prefix, fin: make(chan struct{}), maxStep: maxSteps}
	active.Store(s)
	trackMu.Lock()
	openIter = map[uintptr]map[int]int{}
	writing = map[uintptr]int{}
	trackMu.Unlock()
	atomic.StoreInt32(&nManaged, 1)
	t0 := &thread{id: 0, wake: make(chan struct{}, 1)}
	s.threads = append(s.threads, t0)
	s.cur = t0
	go s.body(t0, main)
	t0.wake <- struct{}{}
	<-s.fin
	atomic.StoreInt32(&nManaged, 0)
	active.Store((*Sched)(nil))
	return s.res
}

func (s *Sched) body(th *thread, fn func()) {
	s.mu.Lock()
	s.byGid[gid()] = th
	s.mu.Unlock()
	<-th.wake
	defer func() {
		if r := recover(); r != nil {
			if _, ok := r.(abortT); !ok {
				s.mu.Lock()
				if s.res.Panic == nil {
					s.res.Panic = fmt.Sprint(r)
					buf := make([]byte, 16384)
					s.res.PanicStack = string(buf[:runtime.Stack(buf, false)])
				}
				s.mu.Unlock()
				s.abort()
				return
			}
			return
		}
		s.finish(th)
	}()
	fn()
}

type abortT struct{}

func (s *Sched) abort() {
	s.mu.Lock()
	if s.aborted {
		s.mu.Unlock()
		return
	}
	s.aborted = true
	s.mu.Unlock()
	close(s.fin)
}

func (s *Sched) finish(th *thread) {
	s.mu.Lock()
	th.done = true
	delete(s.byGid, gid())
	s.mu.Unlock()
	if atomic.LoadInt32(&nTracked) != 0 {
		trackMu.Lock()
		for _, m := range openIter {
			delete(m, th.id)
		}
		trackMu.Unlock()
	}
	next := s.pick(th)
	if next != nil {
		next.wake <- struct{}{}
	}
}

// pick chooses the next thread to run. Returns nil if the execution is over
// (all done, deadlock, or aborted).
func (s *Sched) pick(cur *thread) *thread {
	s.mu.Lock()
	defer s.mu.Unlock()
	if s.aborted {
		return nil
	}
	s.res.Steps++
	var en []*thread
	curEn := false
	if !cur.done && (cur.enabled == nil || cur.enabled()) {
		en = append(en, cur)
		curEn = true
	}
	alive := 0
	for _, t := range s.threads {
		if t.done {
			continue
		}
		alive++
		if t == cur {
			continue
		}
		if t.enabled == nil || t.enabled() {
			en = append(en, t)
		}
	}
	if alive == 0 {
		s.aborted = true
		close(s.fin)
		return nil
	}
	if len(en) == 0 {
		s.res.Deadlock = true
		info := ""
		for _, t := range s.threads {
			if !t.done {
				info += fmt.Sprintf("T%d@%s ", t.id, t.label)
			}
		}
		s.res.DeadInfo = info
		s.aborted = true
		close(s.fin)
		return nil
	}
	if s.maxStep > 0 && s.res.Steps > s.maxStep {
		s.res.Deadlock = true
		s.res.DeadInfo = "step limit (livelock?)"
		s.aborted = true
		close(s.fin)
		return nil
	}
	idx := 0
	if len(en) > 1 {
		k := len(s.res.Decisions)
		if k < len(s.prefix) {
			idx = s.prefix[k]
			if idx >= len(en) {
				s.res.Diverged = true
				s.aborted = true
				close(s.fin)
				return nil
			}
		}
		d := Decision{Chosen: idx, CurEnabled: curEn, Label: en[idx].label}
		for _, t := range en {
			d.Enabled = append(d.Enabled, t.id)
		}
		s.res.Decisions = append(s.res.Decisions, d)
	}
	s.cur = en[idx]
	return en[idx]
}

// Yield is a schedule point: the calling managed thread announces a pending
// operation that can proceed when enabled() is true (nil = always) and lets the
// scheduler decide who runs next. It returns once this thread has been chosen,
// at which time enabled() holds and the caller holds the token until its next
// Yield. No-op for unmanaged goroutines (returns false).
func Yield(enabled func() bool, label string) bool {
	s, th := current()
	if th == nil {
		return false
	}
	th.enabled = enabled
	th.label = label
	next := s.pick(th)
	if next == nil {
		// execution over (deadlock/abort): park this goroutine for ever; the
		// worker process is discarded after such an execution.
		select {}
	}
	if next != th {
		next.wake <- struct{}{}
		<-th.wake
	}
	th.enabled = nil
	return true
}

// SerialLabels names the go-statement sites ("<file>:<func>") whose children,
// when spawned by unmanaged goroutines, are run strictly one after the other in
// spawn order. Harnesses use it to make explicit-state replays deterministic;
// the interleavings of those children are explored separately (E3).
var SerialLabels sync.Map

var (
	serialMu   sync.Mutex
	serialLast = map[string]chan struct{}{}
)

// Go starts fn in a new goroutine. From a managed thread the child becomes a
// managed thread (spawn is a schedule point); otherwise it is a plain goroutine
// counted in Transient until it returns.
func Go(label string, fn func()) {
	s, th := current()
	if th == nil {
		atomic.AddInt64(&Transient, 1)
		var prev, done chan struct{}
		if serial, _ := SerialLabels.Load(label); serial != nil {
			// children spawned at this site run one after the other, in spawn order
			serialMu.Lock()
			prev = serialLast[label]
			done = make(chan struct{})
			serialLast[label] = done
			serialMu.Unlock()
		}
		go func() {
			defer atomic.AddInt64(&Transient, -1)
			if prev != nil {
				<-prev
			}
			if done != nil {
				defer close(done)
			}
			fn()
		}()
		return
	}
	s.mu.Lock()
	nt := &thread{id: len(s.threads), wake: make(chan struct{}, 1), label: "start"}
	s.threads = append(s.threads, nt)
	s.mu.Unlock()
	ready := make(chan struct{})
	go func() {
		s.mu.Lock()
		s.byGid[gid()] = nt
		s.mu.Unlock()
		close(ready)
		s.body2(nt, fn)
	}()
	<-ready
	Yield(nil, "spawn")
}

func (s *Sched) body2(th *thread, fn func()) {
	<-th.wake
	s.mu.Lock()
	ab := s.aborted
	s.mu.Unlock()
	if ab {
		return
	}
	defer func() {
		if r := recover(); r != nil {
			if _, ok := r.(abortT); !ok {
				s.mu.Lock()
				if s.res.Panic == nil {
					s.res.Panic = fmt.Sprint(r)
					buf := make([]byte, 16384)
					s.res.PanicStack = string(buf[:runtime.Stack(buf, false)])
				}
				s.mu.Unlock()
				s.abort()
			}
			return
		}
		s.finish(th)
	}()
	fn()
}

// ---------------------------------------------------------------------------
// points (schedule points for E3, crash points for E4)

var (
	crashArmed  int32
	crashAt     int64
	pointCount  int64
	pointFilter atomic.Value // string prefix or ""
	pointLog    atomic.Value // *[]string, only when recording
	recMu       sync.Mutex
	recording   int32
	recorded    []string
)

// Point marks a step of interest: a schedule point for managed threads and a
// crash point when armed.
func Point(label string) {
	CrashPoint(label)
	if atomic.LoadInt32(&nManaged) != 0 {
		Yield(nil, label)
	}
}

// CrashPoint is a crash point only (no schedule point).
func CrashPoint(label string) {
	if atomic.LoadInt32(&crashArmed) != 0 {
		n := atomic.AddInt64(&pointCount, 1)
		if atomic.LoadInt32(&recording) != 0 {
			recMu.Lock()
			recorded = append(recorded, label)
			recMu.Unlock()
		}
		if n == atomic.LoadInt64(&crashAt) {
			// die here, like kill -9
			_ = syscall.Kill(os.Getpid(), syscall.SIGKILL)
			select {}
		}
	}
}

// ArmCrash makes the k-th Point from now (1-based) kill the process. k<=0 only counts.
func ArmCrash(k int64, record bool) {
	atomic.StoreInt64(&pointCount, 0)
	atomic.StoreInt64(&crashAt, k)
	if record {
		recMu.Lock()
		recorded = nil
		recMu.Unlock()
		atomic.StoreInt32(&recording, 1)
	}
	atomic.StoreInt32(&crashArmed, 1)
}

// DisarmCrash stops counting and returns the number of points passed and their labels.
func DisarmCrash() (int64, []string) {
	atomic.StoreInt32(&crashArmed, 0)
	atomic.StoreInt32(&recording, 0)
	recMu.Lock()
	r := recorded
	recorded = nil
	recMu.Unlock()
	return atomic.LoadInt64(&pointCount), r
}

type pw struct{ w io.Writer }

func (p pw) Write(b []byte) (int, error) {
	CrashPoint("W.Write") // file writes of one part do not interact with other threads: crash point only
	return p.w.Write(b)
}

// W wraps a writer so that each Write is a Point.
func W(w io.Writer) io.Writer { return pw{w} }

// ---------------------------------------------------------------------------
// tracked maps: a model of the Go runtime's "concurrent map iteration and map
// write" abort under the cooperative scheduler. vinstr inserts the hooks in
// package routing and in the serialisers of the routing metadata blocks; they do
// nothing unless the harness tracks the map. A range over a tracked map is a
// sequence of schedule points (one per element); a write to it by another
// managed thread while an iteration is open is recorded as a fault of the
// execution (the real runtime would abort the process when the two overlap).

var (
	trackMu  sync.Mutex
	tracked  = map[uintptr]string{}
	nTracked int32
	openIter = map[uintptr]map[int]int{} // map -> thread id -> open iterations
	writing  = map[uintptr]int{}         // map -> id+1 of the thread inside a write
)

func mapPtr(m interface{}) uintptr {
	v := reflect.ValueOf(m)
	for v.Kind() == reflect.Ptr && !v.IsNil() {
		v = v.Elem()
	}
	if v.Kind() != reflect.Map || v.IsNil() {
		return 0
	}
	return v.Pointer()
}

// TrackMap makes the map m (or the map *m) a tracked map called name.
func TrackMap(m interface{}, name string) {
	p := mapPtr(m)
	if p == 0 {
		return
	}
	trackMu.Lock()
	tracked[p] = name
	atomic.StoreInt32(&nTracked, int32(len(tracked)))
	trackMu.Unlock()
}

// UntrackMaps forgets all tracked maps and open iterations.
func UntrackMaps() {
	trackMu.Lock()
	tracked = map[uintptr]string{}
	openIter = map[uintptr]map[int]int{}
	writing = map[uintptr]int{}
	atomic.StoreInt32(&nTracked, 0)
	trackMu.Unlock()
}

// trackedPtr evaluates the hooked expression (lazily: only while maps are tracked and the caller is a managed
// thread, and under recover - the hook sits before the statement and must not dereference what the statement guards).
func trackedPtr(f func() interface{}) (uintptr, *Sched, *thread) {
	if atomic.LoadInt32(&nTracked) == 0 || atomic.LoadInt32(&nManaged) == 0 {
		return 0, nil, nil
	}
	s, th := current()
	if th == nil {
		return 0, nil, nil
	}
	var m interface{}
	func() {
		defer func() { _ = recover() }()
		m = f()
	}()
	if m == nil {
		return 0, nil, nil
	}
	p := mapPtr(m)
	if p == 0 {
		return 0, nil, nil
	}
	trackMu.Lock()
	_, ok := tracked[p]
	trackMu.Unlock()
	if !ok {
		return 0, nil, nil
	}
	return p, s, th
}

// MapIterBegin opens an iteration over m by the calling thread; the result is
// passed to MapIterStep (first statement of the loop body) and MapIterEnd.
func MapIterBegin(m func() interface{}) uintptr {
	p, _, th := trackedPtr(m)
	if p == 0 {
		return 0
	}
	trackMu.Lock()
	if openIter[p] == nil {
		openIter[p] = map[int]int{}
	}
	openIter[p][th.id]++
	trackMu.Unlock()
	return p
}

// MapIterStep is a schedule point between two elements of an iteration.
func MapIterStep(p uintptr) {
	if p == 0 {
		return
	}
	Yield(nil, "map-iter")
	checkWriter(p, "iteration")
}

func fault(s *Sched, msg string) {
	buf := make([]byte, 4096)
	st := string(buf[:runtime.Stack(buf, false)])
	s.mu.Lock()
	if len(s.res.Faults) < 8 {
		s.res.Faults = append(s.res.Faults, msg+"\n"+st)
	}
	s.mu.Unlock()
}

// checkWriter records a fault if another thread is inside a write of map p.
func checkWriter(p uintptr, what string) {
	s, th := current()
	if th == nil {
		return
	}
	trackMu.Lock()
	w := writing[p]
	name := tracked[p]
	trackMu.Unlock()
	if w != 0 && w-1 != th.id {
		fault(s, fmt.Sprintf("concurrent map %s and map write: thread T%d accesses %s while thread T%d is writing it", what, th.id, name, w-1))
	}
}

// MapRead precedes a statement that reads m[k].
func MapRead(m func() interface{}) {
	p, _, _ := trackedPtr(m)
	if p == 0 {
		return
	}
	Yield(nil, "map-read")
	checkWriter(p, "read")
}

// MapWriteEnd follows the statement announced by MapWrite.
func MapWriteEnd(m func() interface{}) {
	p, _, th := trackedPtr(m)
	if p == 0 {
		return
	}
	trackMu.Lock()
	if writing[p] == th.id+1 {
		delete(writing, p)
	}
	trackMu.Unlock()
}

// MapIterEnd closes the iteration.
func MapIterEnd(p uintptr) {
	if p == 0 {
		return
	}
	_, th := current()
	if th == nil {
		return
	}
	trackMu.Lock()
	if openIter[p][th.id] > 0 {
		openIter[p][th.id]--
	}
	trackMu.Unlock()
}

// MapWrite precedes a statement that assigns to or deletes from m.
func MapWrite(m func() interface{}) {
	p, s, th := trackedPtr(m)
	if p == 0 {
		return
	}
	Yield(nil, "map-write")
	trackMu.Lock()
	name := tracked[p]
	var others []int
	for tid, n := range openIter[p] {
		if tid != th.id && n > 0 {
			others = append(others, tid)
		}
	}
	trackMu.Unlock()
	if len(others) > 0 {
		fault(s, fmt.Sprintf("concurrent map iteration and map write: thread T%d writes %s while thread(s) %v iterate over it", th.id, name, others))
	}
	checkWriter(p, "write")
	// the write is in progress from here until MapWriteEnd; other threads may be scheduled in between
	trackMu.Lock()
	writing[p] = th.id + 1
	trackMu.Unlock()
	Yield(nil, "map-write-mid")
}

// ---------------------------------------------------------------------------
// schedule points inside store transactions (see vinstr: the badgerhold codec is wrapped)

// TxnPoints switches the codec schedule points on (they multiply the schedule space, so only the scenarios
// about concurrent store operations enable them).
var TxnPoints int32

// BhEncoder wraps the store's value encoder.
func BhEncoder(f func(interface{}) ([]byte, error)) func(interface{}) ([]byte, error) {
	return func(v interface{}) ([]byte, error) {
		if atomic.LoadInt32(&TxnPoints) != 0 && atomic.LoadInt32(&nManaged) != 0 {
			Yield(nil, "store-txn:encode")
		}
		return f(v)
	}
}

// BhDecoder wraps the store's value decoder.
func BhDecoder(f func([]byte, interface{}) error) func([]byte, interface{}) error {
	return func(b []byte, v interface{}) error {
		if atomic.LoadInt32(&TxnPoints) != 0 && atomic.LoadInt32(&nManaged) != 0 {
			Yield(nil, "store-txn:decode")
		}
		return f(b, v)
	}
}
