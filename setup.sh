#!/bin/bash
# Builds the instrumenter and pre-warms the Go build cache (offline).
set -e
cd "$(dirname "$0")"
export GOFLAGS=-mod=mod GOPROXY=off GOSUMDB=off GOTOOLCHAIN=local
mkdir -p bin evidence
(cd tools/vinstr && GOFLAGS= go build -o ../../bin/vinstr .)
# warm the cache: one full build of the instrumented tree through the normal path
VERIF_WARM=1 ./run.sh WARM quick >/dev/null 2>&1 || true
echo setup done
