#!/bin/bash
# runall.sh [tier]: run every registered check sequentially, print one line per check.
TIER=${1:-quick}
cd "$(dirname "$0")/.."
for p in $(python3 -c "import json;print(' '.join(c['property_id'] for c in json.load(open('MANIFEST.json'))['checks']))"); do
  s=$(date +%s)
  out=$(./run.sh $p $TIER 2>&1); rc=$?
  e=$(date +%s)
  echo "$p rc=$rc wall=$((e-s))s $(echo "$out" | grep -cE '^VIOLATION') violations $(echo "$out" | grep -c '^KNOWN-FINDING') known | $(echo "$out" | tail -1)"
done
