#!/usr/bin/env python3
"""Generates /verif/MANIFEST.json from the table below (kept in one place so the
manifest is always valid and in step with the checks that exist)."""
import json, os
ROOT = os.path.dirname(os.path.dirname(os.path.abspath(__file__)))
ALL = ["C%02d" % i for i in range(1, 21)]

CHECKS = {
 "C09": dict(level="exploration", technique="bounded-exhaustive input enumeration (all bundle shapes x payload 0..N x every MTU) against a reference predicate",
   text="Every (bundle shape, payload length, MTU) triple of a finite structured alphabet is executed against the real Fragment/ReassembleFragments and judged by a reference predicate transcribed from the statement; all reassembly orders for <=4 fragments. Exhaustive within the stated bounds, which is the right level for a pure function over a small integer domain.",
   note="Trusted: reference CBOR tokenizer, bitwise CRCs and validity predicate (mc/ref); vinstr import rewrite is semantics-preserving in pass-through mode.", design="3/C09"),
 "C10": dict(level="exploration", technique="bounded-exhaustive enumeration of all subsets and orders of fragment pools against a coverage oracle derived from payload content",
   text="For each bundle shape and payload size a pool of fragments is built from three real fragmentations with different limits plus second-level fragmentation of fragments; every non-empty subset (optionally with a duplicate) in all orders (<=4 elements) or asc/desc/rotated orders is reassembled by the real ReassembleFragments / IsBundleReassemblable / storage.Store and compared with coverage computed from the fragments' payload content. Exhaustive over subsets within the pool bound.",
   note="Trusted: injective payload byte pattern locates each fragment's true position independently of its header; reference encoder/decoder; store reused across cases with distinct bundle IDs.", design="3/C10"),
 "C01": dict(level="exploration", technique="bounded-exhaustive input enumeration (<=d non-default alphabet dimensions) plus exhaustive single structural deviations of encodings",
   text="(a) every bundle with at most 2 (quick) / 2 plus reduced 3 (thorough) non-default dimensions of a 17-dimension alphabet is built, serialised, parsed and compared field by field, and re-serialised byte-identically; (b) every single structural deviation (thorough: accepted deviations once more) of the encodings of a core set is re-sealed with reference CRCs and, if the parser accepts it, must re-serialise to an accepted encoding with the same ID/blocks/payload. Exhaustive within those bounds; arbitrary byte strings are not covered.",
   note="Trusted: reference encoder/tree editor/CRCs (mc/ref). Validity of generated bundles is decided by the implementation's CheckValid (C02 checks that predicate).", design="3/C01"),
 "C03": dict(level="fault_enumeration", technique="exhaustive single-bit-flip and burst-error enumeration with an independent bitwise CRC oracle",
   text="For a set of fully CRC-protected bundles every single-bit flip and every burst (start bit x length <= CRC width x all interior patterns up to a stated length, structured patterns above) is presented to the real parser; acceptance is judged by an independent CRC-16/X-25 / CRC-32C over independently delimited blocks. Serialiser CRCs (fresh, after every sequence of <=2 in-memory mutations, after parse) are compared with the bitwise reference.",
   note="Trusted: bitwise CRCs self-tested against published check values; reference tokenizer for block delimiting. Interior patterns of long bursts are capped (reported).", design="3/C03"),
 "C02": dict(level="exploration", technique="bounded-exhaustive enumeration of rule-violator subsets on valid encodings and of builder call sequences, against a reference validity predicate",
   text="89 concrete violators of the BPv7 structural rules (several forms per rule plus valid-side boundary cases) are applied, alone and in all pairs (thorough: selected triples), to 30 valid base encodings through a reference CBOR tree editor with CRCs recomputed; the real parser must not accept any encoding the reference predicate judges violating. Producer side: every builder call sequence (valid 5-call base combined with all sequences of extra calls before/after/inside) and every BuildFromMap map up to a bound must yield only bundles that satisfy the predicate and are accepted by the parser. Fragment/reassembly outputs are judged by the same predicate in C09/C10.",
   note="Trusted: the reference predicate (mc/ref Rules) transcribed from the statement; accept => valid is the deciding direction, valid-but-rejected is only counted. Panics are left to C04.", design="3/C02"),
 "C17": dict(level="exploration", technique="exhaustive enumeration of message values at field extremes, of all 256 values of every code byte, of 2-3 message streams and of all short endpoint strings",
   text="Every TCPCLv4 message type with each field at 0/1/max and lengths on the CBOR/width boundaries, all streams of 2-3 messages from a 14-message alphabet (exact consumption per message), all 256 values of every one-byte code/magic/version field (valid set accepted, rest rejected), discovery announcements over all 256 CLA type codes, WebSocket-agent messages, all 65536 BBC fragment headers, bundle IDs, creation timestamps, all 81 status-item combinations, all 256 administrative-record type codes; endpoint URIs: every string up to length 6 (quick) / 7 (thorough) over a 13-symbol grammar alphabet plus near-misses, and structure->text->structure for ipn/dtn endpoints over the width boundaries. Exhaustive within these bounds.",
   note="Trusted: bridge files exposing unexported codecs (mc/bridge, no logic). 'Unknown reason codes rejected' applied to TCPCLv4 code bytes only (closed sets).", design="3/C17"),
 "C16": dict(level="model_checking", technique="explicit-state BFS of a Go reference state machine; every model trace replayed step by step against the real cla.Manager",
   text="A reference state machine of the adapter registry (registered instance, active, retry budget, closed) is explored breadth-first to its fixpoint for permanent/non-permanent adapters and initial budgets 0..3, plus every enabled event sequence up to depth 3 (quick) / 4 (thorough) without state merging. Every trace is replayed on a fresh real Manager with scripted adapters under the virtual clock in worker processes (a crash of the manager goroutine is attributed to the trace); after each step Sender()/Receiver() and the Start/Close call log must equal the reference, Close must return and stop every started adapter exactly once.",
   note="Trusted: vtime shim delivering the manager's ticker ticks, two-line cla bridge (inject into inChnl, set queueTtl). Events after Close are not explored. The reference machine mirrors the implementation where the statement is silent (re-registering an inactive address re-tries the stored instance).", design="3/C16"),
 "C11": dict(level="model_checking", technique="exhaustive enumeration of (length, segment size) pairs, fault points and all message interleavings of two concurrent transfers on real TransferManagers with the harness as the network",
   text="Real TransferManagers are joined by a harness that plays the network: every (L, m) with 1<=m<=L+2 over consecutive encoded lengths (so every divisor case occurs) plus sizes around 2^20 (segment sizes, START/END placement, concatenation, exactly-one identical bundle delivered, Send nil => delivered); every fault point (peer silent, refusing with each reason code, session closed, short/zero acknowledgement) at every segment index on an (L,m) grid with the acknowledgement timeout fired by the virtual clock; and all interleavings of the segments of two concurrent transfers (same and opposite direction, 2-3 segments each) crossed with all interleavings of the acknowledgements.",
   note="Trusted: vh harness inside pkg/cla/tcpclv4 of the scratch copy; vtime shim. Real TCP/WebSocket scheduling is not modelled (any order a reliable per-flow-ordered link can produce is explored).", design="3/C11"),
 "C08": dict(level="model_checking", technique="explicit-state BFS over operation histories against a reference map, crash-point enumeration by killing child processes, and preemption-bounded schedule exploration of concurrent pushes",
   text="E2: BFS over the states of a reference map (records, parts, pending, property, expiry vs virtual clock) with a 25-event alphabet (push A/B/four fragments of C incl. an overlapping one, four kinds of update, delete, advance, sweep, close+reopen) to depth 3 (quick) / 5 (thorough); every transition's history is replayed on a real store and every query, part read-back and completeness answer compared. E4: for short histories every instrumented point (every call statement in pkg/storage and every Write of the part file) of the last operation: a child process is killed exactly there, the store reopened by another process, which must find the state before or after the operation, and repeating the operation must give the reference state. E3: all schedules of 2-3 threads pushing different fragments of one bundle up to a preemption bound under the cooperative scheduler.",
   note="Trusted: badger's crash consistency under process kill (not power loss); vinstr points in pkg/storage; vsync shim. E3 assumes atomicity between schedule points (sync operations and storage call statements).", design="3/C08"),
 "C05": dict(level="model_checking", technique="explicit-state BFS over event histories of a real routing.Core per routing algorithm (replay from scratch, state matching on observable state), invariants evaluated in every state",
   text="For each routing algorithm (epidemic, spray, binary_spray, prophet, dtlsr, sensor-mule) a real Core with mock convergence senders and a mock agent is driven under the virtual clock through every event history up to a depth bound (quick 3-4, thorough 5) from the initial state and from two non-initial roots; 22-event alphabet (submission via SendBundle and via the agent path, clock-less and aged bundles, reception with previous node, peers up/down, send outcomes, retry tick, store-cleaning tick, clock advances around the lifetime, restart). In every reached state: an accepted, unexpired, never successfully transmitted bundle is in the store and pending; a held bundle is handed to its destination as soon as that is a connected peer; under epidemic every newly connected peer lacking the bundle is offered it; cleaning never removes an unexpired bundle; all of it also after restart.",
   note="Trusted: routing/cla bridges (single calls), vtime, serialised per-peer sender goroutines of Core.forward for deterministic replays (their interleavings: schedule exploration, see DESIGN). Cron wiring of the retry/cleaning jobs checked separately.", design="3/C05"),
 "C13": dict(level="model_checking", technique="explicit-state BFS over event histories of a real routing.Core per routing algorithm with the successful-transmission relation in the state; safety invariant on every send",
   text="Per algorithm (epidemic, prophet, spray, binary_spray, dtlsr incl. broadcast bundles, sensor-mule): BFS over histories of receptions with each relay as previous node (incl. duplicate receptions), local submissions, relays up/down, send outcome switches, retry ticks and restarts, from the initial state and from roots with relays connected (one failing; prophet: with summary vectors). Every send is judged: never to the bundle's previous node, never to a peer that already received it successfully while the node remembers it (restart carve-out for the in-memory spray variants); under epidemic a retry offers the bundle again to every connected peer that lacks it (a failed peer is eligible again).",
   note="Trusted: as C05. Sends to the bundle's destination node are direct delivery, not an algorithm choice, and are not judged here.", design="3/C13"),
 "C14": dict(level="model_checking", technique="explicit-state BFS over submission histories of a real routing.Core under a frozen virtual clock; bijection invariant between bundles and IDs in store and on the wire",
   text="With the virtual clock frozen every creation timestamp coincides: five application bundles with identical source and time (two clock-less, one with a preset sequence number) are submitted through SendBundle and through the agent path, and two received bundles make the node originate status reports in the same millisecond. BFS over submissions, receptions, peers, send outcomes, retry ticks and restart from three roots. In every state: bundle <-> ID on the wire is a bijection, every untransmitted submission has its own store record filed under the ID the stored bundle carries, and every (re)transmission uses that ID.",
   note="Trusted: as C05. A restart is modelled as taking one second of virtual time (clock-less bundles still collide across it: found and fixed).", design="3/C14"),
 "C18": dict(level="model_checking", technique="explicit-state BFS over event histories of a real routing.Core per spray variant and budget, conservation invariant on copy counts in every state",
   text="Spray-and-wait and binary spray with budgets L=1..4 (quick) / 1..8 (thorough): BFS over submission, reception (binary: carrying L copies), relays and destination up/down, send outcome switches and retry ticks from the initial state and from a root with one failing and one working relay. In every state: successful transmissions to non-destination peers <= L-1; copies kept (read from the algorithm's table) plus copies given away (spray: successes; binary: announced copies parsed from the transmitted bundles) equal the copies held, i.e. a failed transmission gives its copies back and nothing leaks; a single-copy holder transmits only to the destination.",
   note="Trusted: as C05; read-only bridge into the spray metadata table. Concurrent failure reports: schedule exploration (see DESIGN).", design="3/C18"),
 "C06": dict(level="exploration", technique="bounded-exhaustive enumeration of forwarding scenarios on a live routing.Core with a byte-level block-by-block oracle on what the convergence sender receives",
   text="Per routing algorithm ~600 (quick) / ~33k (thorough, full 0..255 hop triangle) scenarios: received bundle shapes (previous-node / unknown blocks with keep, remove, replicate, report flags / CRC mixes) x hop count and limit on the 8-bit boundaries x bundle-age modes (none, with clock, clock-less) x residence times 0..7 s x lifetime ending 1 ms before or after the send x first/second/third attempt x direct delivery or relay. Every byte string handed to the mock convergence sender is parsed, CRC-checked by the reference and compared with the accepted bundle: primary block and payload byte-identical, hop count = received+1 on every attempt, previous node = this node, age = received + residence in ms exactly, remove-flagged unknown blocks gone, other blocks unchanged; exceeded/expired bundles are never sent and leave the store (at the latest with the cleaning job).",
   note="Trusted: as C05; one long-lived node per batch of 150 scenarios. Equality of elapsed time and lifetime is not tested (boundary not fixed by the statement).", design="3/C06"),
}
NA_REASON = "check not built yet in this round (planned in DESIGN.md section 3)"

def main():
    checks = []
    for pid in ALL:
        if pid not in CHECKS: continue
        c = CHECKS[pid]
        checks.append({
            "property_id": pid,
            "quick_cmd": "./run.sh %s quick" % pid,
            "thorough_cmd": "./run.sh %s thorough" % pid,
            "evidence_file": "/verif/evidence/%s.json" % pid,
            "replay_cmd_template": "./run.sh %s --replay {path}" % pid,
            "engine": c.get("engine", "dtnmc"),
            "level_claimed": {"category": c["level"], "text": c["text"], "design_ref": c["design"]},
            "level_note": c["note"],
            "technique": c["technique"],
        })
    m = {
        "version": 1,
        "setup_cmd": "./setup.sh",
        "hooks": {
            "guard": "verif",
            "enable": "no hooks are committed to /repo: every check copies /repo's working tree to a scratch directory and instruments the copy mechanically (tools/vinstr: sync/time import shims, go-statement hook, schedule/crash points in pkg/storage); see DESIGN.md 1.1",
            "baseline_off_cmd": "cd /repo && GOFLAGS=-mod=mod GOPROXY=off GOSUMDB=off go test -vet=off -count=1 -timeout 25m ./...",
            "source_commits": [],
            "add_only": True,
        },
        "engines": [
            {"name": "dtnmc", "path": "/verif/mc", "serves_properties": sorted(CHECKS), "kind_free_text": "hand-written explorer: bounded-exhaustive enumeration (E1), explicit-state BFS over event histories with replay (E2), cooperative-scheduler DFS with preemption bound (E3), crash-point enumeration (E4)"},
            {"name": "vinstr", "path": "/verif/tools/vinstr", "serves_properties": sorted(CHECKS), "kind_free_text": "go/ast rewriter producing the instrumented scratch copy"},
        ],
        "checks": checks,
        "not_applicable": [{"property_id": p, "reason": NA_REASON} for p in ALL if p not in CHECKS],
        "notes": "All checks rebuild from /repo's current working tree. Exit 0 = held (KNOWN-FINDING lines possible), 1 = VIOLATION, 2 = harness/build error (not a verdict).",
    }
    json.dump(m, open(os.path.join(ROOT, "MANIFEST.json"), "w"), indent=1)
    print("wrote MANIFEST.json with", len(checks), "checks")
main()
