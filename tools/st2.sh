#!/bin/bash
# st2.sh <Cxx> <patch.diff> [tier] -- like seedtest.sh but on a scratch worktree (VERIF_REPO), so /repo stays free.
P=$1; PATCH=$2; TIER=${3:-quick}
WT=/dev/shm/st2-$P-$$
git -C /repo worktree add -q --detach $WT HEAD || exit 2
trap 'git -C /repo worktree remove --force $WT' EXIT
git -C $WT apply "$PATCH" || { echo "PATCH DOES NOT APPLY"; exit 3; }
cd /verif && VERIF_REPO=$WT ./run.sh "$P" "$TIER" 2>&1 | grep -E 'VIOLATION|KNOWN|key=|HARNESS|violations=' | head -${LINES_MAX:-12}
echo "exit=${PIPESTATUS[0]}"
