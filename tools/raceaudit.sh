#!/bin/bash
# raceaudit.sh [n]: free-running race-detector pass over the bodies of the schedule-exploration scenarios (companion
# of E3, see DESIGN 1.6). Sampling: an audit, not a check; prints the distinct racing source lines under pkg/.
N=${1:-60}
cd "$(dirname "$0")/.."
out=$(mktemp /dev/shm/race.XXXXXX)
run() { VERIF_RACE=1 GORACE="halt_on_error=0" ./run.sh FREERUN "$1" "$2" $N >>$out 2>&1; }
run nhconc '{"algo":"epidemic","mode":"failures","peers":2}'
run nhconc '{"algo":"spray","mode":"failures","peers":2,"l":4}'
run nhconc '{"algo":"binary_spray","mode":"failures","peers":2,"l":4}'
run nhconc '{"algo":"epidemic","mode":"submit","n":2}'
run nhconc '{"algo":"prophet","mode":"vectors","peers":3}'
run c07rest '{"threads":["deliver1","deliver2","fetch"]}'
run c07rest '{"threads":["deliver1","unregister","deliver2"]}'
grep -c "WARNING: DATA RACE" $out | sed 's/^/race reports: /'
grep -E "^freerun" $out
# distinct racing locations in the repository's packages (first pkg/ frame of each access)
grep -A3 -E "^(Write|Read|Previous write|Previous read) at" $out | grep -oE "pkg/[a-z0-9_/]+\.go:[0-9]+" | sort | uniq -c | sort -rn | head -40
rm -f $out
