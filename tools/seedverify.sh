#!/bin/bash
# seedverify.sh <Cxx> <variant> [patchfile]
# Confirms a seeded change delivered by a sub-agent in /tmp/seed-<Cxx>/SEED/<variant>/ in a fresh
# scratch worktree of /repo HEAD: demo passes clean, fails with the patch; full suite passes with the patch.
# Then stores it under /verif/seeded/<Cxx>-<variant>/ . The check itself is run separately (seedtest.sh).
P=$1; V=$2
SRC=${SEEDBASE:-/tmp/seed}-$P/SEED/$V
PATCH=${3:-$SRC/patch.diff}
export GOFLAGS=-mod=mod GOPROXY=off GOSUMDB=off GOTOOLCHAIN=local
WT=/tmp/sv-$P-$V
OUT=/verif/seeded/$P-$V
git -C /repo worktree remove --force $WT 2>/dev/null
git -C /repo worktree add -q --detach $WT HEAD || exit 2
trap 'git -C /repo worktree remove --force $WT' EXIT
PLACE=$(python3 -c "import json;print(json.load(open('$SRC/meta.json'))['demo']['place_at'])")
RUN=$(python3 -c "import json;print(json.load(open('$SRC/meta.json'))['demo']['run'])")
DEMO=$(ls $SRC/*_test.go 2>/dev/null | head -1)
[ -z "$DEMO" ] && DEMO=$(ls $SRC/*.go | head -1)
cd $WT || exit 2
git apply --check "$PATCH" || { echo "RESULT $P-$V patch-does-not-apply"; exit 3; }
mkdir -p "$(dirname "$PLACE")"; cp "$DEMO" "$PLACE"
( eval "$RUN" ) > /tmp/sv-$P-$V.clean.log 2>&1; CLEAN=$?
git apply "$PATCH"
( eval "$RUN" ) > /tmp/sv-$P-$V.patched.log 2>&1; PATCHED=$?
rm -f "$PLACE"
go build ./... > /tmp/sv-$P-$V.build.log 2>&1; BUILD=$?
go test -vet=off -count=1 -timeout 25m ./... > /tmp/sv-$P-$V.suite.log 2>&1; SUITE=$?
FAILS=$(grep -E '^(--- FAIL|FAIL)' /tmp/sv-$P-$V.suite.log | grep -v 'TestWebAgentConnector' | tr '\n' ';')
if [ $SUITE -ne 0 ]; then
  # rerun failing packages once, alone (timing-sensitive network tests fail under load)
  PK=$(grep -E '^FAIL\s' /tmp/sv-$P-$V.suite.log | awk '{print $2}' | sort -u)
  SUITE=0
  # packages touched by the patch (import paths)
  TOUCHED=$(git diff --name-only | grep '\.go$' | xargs -n1 dirname | sort -u | sed 's|^|github.com/dtn7/dtn7-go/|')
  for k in $PK; do
    # a failing package that does not depend on any touched package cannot be affected by the change: the
    # timing-sensitive network tests fail under machine load on the clean tree as well
    rel=0
    for t in $TOUCHED; do go list -deps $k 2>/dev/null | grep -qx "$t" && rel=1; done
    if [ $rel -eq 0 ]; then UNRELATED="$UNRELATED $k"; continue; fi
    okk=1
    for try in 1 2 3 4; do
      if go test -vet=off -count=1 -timeout 25m $k > /tmp/sv-$P-$V.suite2.log 2>&1; then okk=0; break; fi
      grep -E '^--- FAIL' /tmp/sv-$P-$V.suite2.log | grep -qv TestWebAgentConnector || { okk=0; break; }
      sleep 5
    done
    [ $okk -ne 0 ] && SUITE=1
  done
fi
echo "RESULT $P-$V demo_clean_exit=$CLEAN demo_patched_exit=$PATCHED build=$BUILD suite_exit=$SUITE first_fails=[$FAILS]"
if [ $CLEAN -eq 0 ] && [ $PATCHED -ne 0 ] && [ $BUILD -eq 0 ] && [ $SUITE -eq 0 ]; then
  mkdir -p $OUT; cp "$PATCH" $OUT/patch.diff; cp "$DEMO" $OUT/; 
  python3 - <<PY
import json
m=json.load(open('$SRC/meta.json'))
m['verified']={'unrelated_packages_failing_under_load':'$UNRELATED'.split(),'by':'tools/seedverify.sh in scratch worktree of /repo HEAD $(git -C /repo rev-parse --short HEAD)','demo_passes_clean':True,'demo_fails_patched':True,'suite_passes_patched':True,'suite_note':'TestWebAgentConnector flaky; timing-sensitive packages rerun alone when failing under load'}
json.dump(m,open('$OUT/meta.json','w'),indent=1)
PY
  echo "STORED $OUT"
fi
