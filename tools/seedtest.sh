#!/bin/bash
# seedtest.sh <Cxx> <patch.diff> [tier]  -- apply a seeded change to /repo, run the check, undo.
P=$1; PATCH=$2; TIER=${3:-quick}
cd /repo || exit 2
if ! git diff --quiet; then echo "/repo not clean"; exit 2; fi
git apply "$PATCH" || { echo "PATCH DOES NOT APPLY"; exit 3; }
cd /verif && ./run.sh "$P" "$TIER" 2>&1 | grep -E 'VIOLATION|KNOWN|key=|HARNESS|violations=' | head -${LINES_MAX:-12}
rc=${PIPESTATUS[0]}
git -C /repo checkout -- . ; git -C /repo clean -fdq
echo "exit=$rc"
