#!/bin/bash
# seedall.sh [tier]: run every seeded change in /verif/seeded against its property's check (applies each patch to
# /repo, runs the check, reverts). Writes seeded/RESULTS.txt. /repo must be clean; nothing else may use /repo meanwhile.
TIER=${1:-quick}
cd /verif || exit 2
out=seeded/RESULTS.txt
echo "# seeded change x check ($TIER tier), /repo $(git -C /repo rev-parse --short HEAD), /verif $(git rev-parse --short HEAD)" > $out
for d in seeded/C*/; do
  id=$(basename $d); prop=${id%%-*}
  patch=$d/patch.diff; [ -f $d/patch.rebased.diff ] && patch=$d/patch.rebased.diff
  if grep -q '"status_after_fixes": "neutralised' $d/meta.json 2>/dev/null; then echo "$id NEUTRALISED (precondition removed by a fix commit)" >> $out; continue; fi
  if grep -q '"status": "not reported by any check' $d/meta.json 2>/dev/null; then echo "$id OUTSIDE (outside what the listed properties state; see meta.json)" >> $out; continue; fi
  s=$(date +%s)
  res=$(LINES_MAX=40 tools/seedtest.sh $prop $(pwd)/$patch $TIER 2>&1)
  e=$(date +%s)
  if echo "$res" | grep -q "PATCH DOES NOT APPLY"; then echo "$id NOAPPLY" >> $out
  elif echo "$res" | grep -q "^VIOLATION"; then echo "$id DETECTED $((e-s))s $(echo "$res" | grep -m1 'key=' | sed 's/ cases=.*//' | cut -c1-140)" >> $out
  elif echo "$res" | grep -q "HARNESS"; then echo "$id HARNESS-ERROR" >> $out
  else echo "$id MISSED $((e-s))s" >> $out; fi
  tail -1 $out
done
# the evidence files now describe seeded runs: regenerate them from the unchanged tree before committing
echo "NOTE: run tools/runall.sh quick before committing (evidence/ was rewritten by the seeded runs)" >&2
