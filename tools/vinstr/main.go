// vinstr rewrites a scratch copy of the dtn7-go tree for model checking.
//
//	vinstr <root-of-copy>
//
// For every non-test .go file below <root>/pkg:
//   - import "sync"  -> sync "github.com/dtn7/dtn7-go/verif/vsync"
//   - import "time"  -> time "github.com/dtn7/dtn7-go/verif/vtime"
//   - go f(a, b)     -> { _va0 := a; _va1 := b; vrt.Go(func() { f(_va0, _va1) }) }
//   - in package storage: vrt.Point("<file>:<func>#<n>") before every statement that
//     contains a call, and the argument of .WriteBundle(w) wrapped in vrt.W(w).
//
// The rewrite is mechanical and semantics preserving when no harness thread is
// "managed" (all shims pass through to the real primitive).
package main

import (
	"bytes"
	"fmt"
	"go/ast"
	"go/format"
	"go/parser"
	"go/token"
	"os"
	"path/filepath"
	"strconv"
	"strings"
)

const mod = "github.com/dtn7/dtn7-go/verif/"

func main() {
	if len(os.Args) != 2 {
		fmt.Fprintln(os.Stderr, "usage: vinstr <root>")
		os.Exit(2)
	}
	root := os.Args[1]
	n := 0
	err := filepath.Walk(filepath.Join(root, "pkg"), func(p string, info os.FileInfo, err error) error {
		if err != nil {
			return err
		}
		if info.IsDir() || !strings.HasSuffix(p, ".go") || strings.HasSuffix(p, "_test.go") {
			return nil
		}
		if strings.HasSuffix(p, "_verif.go") { // bridge files are not rewritten
			return nil
		}
		if err := rewrite(p); err != nil {
			return fmt.Errorf("%s: %v", p, err)
		}
		n++
		return nil
	})
	if err != nil {
		fmt.Fprintln(os.Stderr, "vinstr:", err)
		os.Exit(2)
	}
	fmt.Fprintf(os.Stderr, "vinstr: rewrote %d files\n", n)
}

type rw struct {
	fset     *token.FileSet
	file     *ast.File
	needVrt  bool
	storage  bool
	maps     bool // insert the tracked-map hooks (vrt.MapIterBegin/Step/End, vrt.MapWrite)
	mapCnt   int
	base     string
	fn       string
	pointCnt int
}

func rewrite(path string) error {
	fset := token.NewFileSet()
	f, err := parser.ParseFile(fset, path, nil, parser.ParseComments)
	if err != nil {
		return err
	}
	r := &rw{fset: fset, file: f, base: filepath.Base(path)}
	r.storage = f.Name.Name == "storage"
	r.maps = f.Name.Name == "routing" || r.base == "extension_block_prophet.go" || r.base == "extension_block_dtlsr.go"

	// imports
	for _, imp := range f.Imports {
		p, _ := strconv.Unquote(imp.Path.Value)
		switch p {
		case "sync":
			if imp.Name == nil {
				imp.Name = ast.NewIdent("sync")
			}
			imp.Path.Value = strconv.Quote(mod + "vsync")
		case "time":
			if imp.Name == nil {
				imp.Name = ast.NewIdent("time")
			}
			imp.Path.Value = strconv.Quote(mod + "vtime")
		}
	}

	for _, d := range f.Decls {
		fd, ok := d.(*ast.FuncDecl)
		if !ok || fd.Body == nil {
			continue
		}
		r.fn = fd.Name.Name
		r.pointCnt = 0
		r.block(fd.Body)
	}

	if r.needVrt {
		addImport(f, "vrt", mod+"vrt")
	}

	var buf bytes.Buffer
	if err := format.Node(&buf, fset, f); err != nil {
		return err
	}
	return os.WriteFile(path, buf.Bytes(), 0644)
}

func addImport(f *ast.File, name, path string) {
	spec := &ast.ImportSpec{Name: ast.NewIdent(name), Path: &ast.BasicLit{Kind: token.STRING, Value: strconv.Quote(path)}}
	for _, d := range f.Decls {
		if gd, ok := d.(*ast.GenDecl); ok && gd.Tok == token.IMPORT {
			gd.Specs = append(gd.Specs, spec)
			if !gd.Lparen.IsValid() {
				gd.Lparen = gd.Pos()
				gd.Rparen = gd.End()
			}
			f.Imports = append(f.Imports, spec)
			return
		}
	}
	gd := &ast.GenDecl{Tok: token.IMPORT, Specs: []ast.Spec{spec}}
	f.Decls = append([]ast.Decl{gd}, f.Decls...)
	f.Imports = append(f.Imports, spec)
}

// block rewrites the statements of a block in place.
func (r *rw) block(b *ast.BlockStmt) {
	if b == nil {
		return
	}
	b.List = r.stmts(b.List)
}

func (r *rw) stmts(list []ast.Stmt) []ast.Stmt {
	var out []ast.Stmt
	for _, s := range list {
		s = r.stmt(s)
		if r.storage && containsCall(s) && pointable(s) {
			out = append(out, r.point())
		}
		if r.maps {
			if pre, post, ok := r.mapHooks(s); ok {
				out = append(out, pre...)
				out = append(out, s)
				out = append(out, post...)
				continue
			}
		}
		out = append(out, s)
		// Store configuration: the memtable arena badger allocates (and zeroes) on every Open is 64 MiB by
		// default, which dominates the cost of creating the thousands of fresh stores the explorer needs.
		// After the statement that sets ValueLogFileSize, the copy also sets MaxTableSize to 1 MiB.
		if r.storage && r.fn == "NewStore" {
			if as, ok := s.(*ast.AssignStmt); ok && len(as.Lhs) == 1 {
				if se, ok := as.Lhs[0].(*ast.SelectorExpr); ok && se.Sel.Name == "ValueLogFileSize" && isSel(se.X) {
					r.needVrt = true
					out = append(out, &ast.AssignStmt{
						Lhs: []ast.Expr{&ast.SelectorExpr{X: se.X, Sel: ast.NewIdent("MaxTableSize")}},
						Tok: token.ASSIGN,
						Rhs: []ast.Expr{&ast.BasicLit{Kind: token.INT, Value: "1 << 20"}},
					}, &ast.AssignStmt{
						// likewise the value log file that is created, truncated to its full size and mmapped on every Open
						Lhs: []ast.Expr{&ast.SelectorExpr{X: se.X, Sel: ast.NewIdent("ValueLogFileSize")}},
						Tok: token.ASSIGN,
						Rhs: []ast.Expr{&ast.BasicLit{Kind: token.INT, Value: "1 << 21"}},
					}, &ast.AssignStmt{
						// schedule points inside the store's transactions: badgerhold calls the configured codec between
						// a transaction's reads and its commit, so wrapping the codec lets the explorer interleave two
						// transactions; badger's own (real) conflict detection then decides what happens.
						Lhs: []ast.Expr{&ast.SelectorExpr{X: se.X.(*ast.SelectorExpr).X, Sel: ast.NewIdent("Encoder")}},
						Tok: token.ASSIGN,
						Rhs: []ast.Expr{vrtCall("BhEncoder", &ast.SelectorExpr{X: se.X.(*ast.SelectorExpr).X, Sel: ast.NewIdent("Encoder")})},
					}, &ast.AssignStmt{
						Lhs: []ast.Expr{&ast.SelectorExpr{X: se.X.(*ast.SelectorExpr).X, Sel: ast.NewIdent("Decoder")}},
						Tok: token.ASSIGN,
						Rhs: []ast.Expr{vrtCall("BhDecoder", &ast.SelectorExpr{X: se.X.(*ast.SelectorExpr).X, Sel: ast.NewIdent("Decoder")})},
					}, &ast.AssignStmt{
						// and no level-0 compaction (a second table build) on every Close
						Lhs: []ast.Expr{&ast.SelectorExpr{X: se.X, Sel: ast.NewIdent("CompactL0OnClose")}},
						Tok: token.ASSIGN,
						Rhs: []ast.Expr{ast.NewIdent("false")},
					})
				}
			}
		}
	}
	return out
}

func pointable(s ast.Stmt) bool {
	switch s.(type) {
	case *ast.ExprStmt, *ast.AssignStmt, *ast.ReturnStmt, *ast.IfStmt, *ast.DeclStmt, *ast.RangeStmt, *ast.ForStmt, *ast.SwitchStmt:
		return true
	}
	return false
}

// containsCall reports whether the statement's own expressions (not nested
// blocks) contain a function call.
func containsCall(s ast.Stmt) bool {
	found := false
	check := func(n ast.Node) {
		if n == nil {
			return
		}
		ast.Inspect(n, func(n ast.Node) bool {
			switch x := n.(type) {
			case *ast.FuncLit:
				return false
			case *ast.CallExpr:
				// ignore conversions / builtins that cannot touch shared state
				if id, ok := x.Fun.(*ast.Ident); ok {
					switch id.Name {
					case "len", "cap", "append", "make", "new", "string", "uint64", "int", "int64", "byte", "panic", "delete", "copy":
						return true
					}
				}
				if se, ok := x.Fun.(*ast.SelectorExpr); ok {
					if id, ok := se.X.(*ast.Ident); ok && (id.Name == "vrt" || id.Name == "log") {
						return true
					}
				}
				found = true
			}
			return true
		})
	}
	switch x := s.(type) {
	case *ast.ExprStmt:
		check(x.X)
	case *ast.AssignStmt:
		for _, e := range x.Rhs {
			check(e)
		}
	case *ast.ReturnStmt:
		for _, e := range x.Results {
			check(e)
		}
	case *ast.IfStmt:
		if x.Init != nil {
			check(x.Init)
		}
		check(x.Cond)
	case *ast.DeclStmt:
		check(x.Decl)
	case *ast.RangeStmt:
		check(x.X)
	case *ast.ForStmt:
		if x.Init != nil {
			check(x.Init)
		}
	case *ast.SwitchStmt:
		if x.Init != nil {
			check(x.Init)
		}
		if x.Tag != nil {
			check(x.Tag)
		}
	}
	return found
}

func (r *rw) point() ast.Stmt {
	r.needVrt = true
	r.pointCnt++
	label := fmt.Sprintf("%s:%s#%d", strings.TrimSuffix(r.base, ".go"), r.fn, r.pointCnt)
	return &ast.ExprStmt{X: &ast.CallExpr{
		Fun:  &ast.SelectorExpr{X: ast.NewIdent("vrt"), Sel: ast.NewIdent("Point")},
		Args: []ast.Expr{&ast.BasicLit{Kind: token.STRING, Value: strconv.Quote(label)}},
	}}
}

func (r *rw) stmt(s ast.Stmt) ast.Stmt {
	switch x := s.(type) {
	case *ast.GoStmt:
		r.exprs(x.Call)
		return r.goStmt(x)
	case *ast.BlockStmt:
		r.block(x)
	case *ast.IfStmt:
		if x.Init != nil {
			x.Init = r.stmt(x.Init)
		}
		r.exprs(x.Cond)
		r.block(x.Body)
		if e, isIf := x.Else.(*ast.IfStmt); isIf && r.maps && len(r.mapReads(e)) > 0 {
			// `else if c` with tracked map reads in c: `else { if c ... }`, so that the block pass puts the hooks
			// immediately before the nested if (same scoping, same evaluation order)
			x.Else = &ast.BlockStmt{List: []ast.Stmt{e}}
		}
		if x.Else != nil {
			x.Else = r.stmt(x.Else)
		}
	case *ast.ForStmt:
		r.block(x.Body)
	case *ast.RangeStmt:
		r.exprs(x.X)
		r.block(x.Body)
	case *ast.SwitchStmt:
		r.block(x.Body)
	case *ast.TypeSwitchStmt:
		r.block(x.Body)
	case *ast.SelectStmt:
		r.block(x.Body)
	case *ast.CaseClause:
		x.Body = r.stmts(x.Body)
	case *ast.CommClause:
		x.Body = r.stmts(x.Body)
	case *ast.LabeledStmt:
		x.Stmt = r.stmt(x.Stmt)
	case *ast.ExprStmt:
		r.exprs(x.X)
	case *ast.AssignStmt:
		for _, e := range x.Rhs {
			r.exprs(e)
		}
	case *ast.ReturnStmt:
		for _, e := range x.Results {
			r.exprs(e)
		}
	case *ast.DeferStmt:
		r.exprs(x.Call)
	case *ast.DeclStmt:
		r.exprs(x.Decl)
	}
	return s
}

// exprs descends into function literals found inside an expression and wraps
// WriteBundle arguments in package storage.
func (r *rw) exprs(n ast.Node) {
	if n == nil {
		return
	}
	ast.Inspect(n, func(n ast.Node) bool {
		switch x := n.(type) {
		case *ast.FuncLit:
			saved := r.fn
			r.fn = saved + ".func"
			r.block(x.Body)
			r.fn = saved
			return false
		case *ast.CallExpr:
			if r.storage {
				if se, ok := x.Fun.(*ast.SelectorExpr); ok && se.Sel.Name == "WriteBundle" && len(x.Args) == 1 {
					r.needVrt = true
					x.Args[0] = &ast.CallExpr{
						Fun:  &ast.SelectorExpr{X: ast.NewIdent("vrt"), Sel: ast.NewIdent("W")},
						Args: []ast.Expr{x.Args[0]},
					}
				}
			}
		}
		return true
	})
}

func (r *rw) goStmt(g *ast.GoStmt) ast.Stmt {
	r.needVrt = true
	call := g.Call
	var pre []ast.Stmt
	newArgs := make([]ast.Expr, len(call.Args))
	for i, a := range call.Args {
		if _, ok := a.(*ast.BasicLit); ok {
			newArgs[i] = a
			continue
		}
		name := fmt.Sprintf("_va%d", i)
		pre = append(pre, &ast.AssignStmt{Lhs: []ast.Expr{ast.NewIdent(name)}, Tok: token.DEFINE, Rhs: []ast.Expr{a}})
		newArgs[i] = ast.NewIdent(name)
	}
	fun := call.Fun
	// The function value of a go statement is evaluated when the statement executes (a method value binds its
	// receiver, a field read happens now): bind it before the closure, unless it is a plain identifier.
	if _, isIdent := fun.(*ast.Ident); !isIdent {
		pre = append(pre, &ast.AssignStmt{Lhs: []ast.Expr{ast.NewIdent("_vf")}, Tok: token.DEFINE, Rhs: []ast.Expr{fun}})
		fun = ast.NewIdent("_vf")
	}
	inner := &ast.CallExpr{Fun: fun, Args: newArgs, Ellipsis: call.Ellipsis}
	wrapped := &ast.ExprStmt{X: &ast.CallExpr{
		Fun: &ast.SelectorExpr{X: ast.NewIdent("vrt"), Sel: ast.NewIdent("Go")},
		Args: []ast.Expr{&ast.BasicLit{Kind: token.STRING, Value: strconv.Quote(r.base + ":" + strings.SplitN(r.fn, ".", 2)[0])}, &ast.FuncLit{
			Type: &ast.FuncType{Params: &ast.FieldList{}},
			Body: &ast.BlockStmt{List: []ast.Stmt{&ast.ExprStmt{X: inner}}},
		}},
	}}
	return &ast.BlockStmt{List: append(pre, wrapped)}
}

// ---------------------------------------------------------------------------
// tracked-map hooks

func simpleExpr(e ast.Expr) bool {
	switch x := e.(type) {
	case *ast.Ident:
		return true
	case *ast.SelectorExpr:
		return simpleExpr(x.X)
	case *ast.StarExpr:
		return simpleExpr(x.X)
	case *ast.ParenExpr:
		return simpleExpr(x.X)
	}
	return false
}

// lazy wraps an expression in func() interface{} { return e }: the hooks evaluate it only while maps are tracked, and
// under recover, so that a hook never dereferences what the original statement would have guarded.
func lazy(e ast.Expr) ast.Expr {
	return &ast.FuncLit{
		Type: &ast.FuncType{Params: &ast.FieldList{}, Results: &ast.FieldList{List: []*ast.Field{{Type: &ast.InterfaceType{Methods: &ast.FieldList{}}}}}},
		Body: &ast.BlockStmt{List: []ast.Stmt{&ast.ReturnStmt{Results: []ast.Expr{e}}}},
	}
}

func vrtCall(fn string, args ...ast.Expr) *ast.CallExpr {
	return &ast.CallExpr{Fun: &ast.SelectorExpr{X: ast.NewIdent("vrt"), Sel: ast.NewIdent(fn)}, Args: args}
}

// hasLabeledBranch reports whether the block contains goto or a labelled break/continue (outside function literals).
func hasLabeledBranch(b *ast.BlockStmt) bool {
	found := false
	ast.Inspect(b, func(n ast.Node) bool {
		switch x := n.(type) {
		case *ast.FuncLit:
			return false
		case *ast.BranchStmt:
			if x.Label != nil || x.Tok == token.GOTO {
				found = true
			}
		}
		return true
	})
	return found
}

// beforeReturns inserts mk() before every return statement of the list (recursively, not into function literals).
func beforeReturns(list []ast.Stmt, mk func() ast.Stmt) []ast.Stmt {
	var out []ast.Stmt
	for _, s := range list {
		switch x := s.(type) {
		case *ast.ReturnStmt:
			out = append(out, mk())
		case *ast.BlockStmt:
			x.List = beforeReturns(x.List, mk)
		case *ast.IfStmt:
			for cur := x; cur != nil; {
				cur.Body.List = beforeReturns(cur.Body.List, mk)
				switch e := cur.Else.(type) {
				case *ast.IfStmt:
					cur = e
				case *ast.BlockStmt:
					e.List = beforeReturns(e.List, mk)
					cur = nil
				default:
					cur = nil
				}
			}
		case *ast.ForStmt:
			x.Body.List = beforeReturns(x.Body.List, mk)
		case *ast.RangeStmt:
			x.Body.List = beforeReturns(x.Body.List, mk)
		case *ast.SwitchStmt:
			x.Body.List = beforeReturns(x.Body.List, mk)
		case *ast.TypeSwitchStmt:
			x.Body.List = beforeReturns(x.Body.List, mk)
		case *ast.SelectStmt:
			x.Body.List = beforeReturns(x.Body.List, mk)
		case *ast.CaseClause:
			x.Body = beforeReturns(x.Body, mk)
		case *ast.CommClause:
			x.Body = beforeReturns(x.Body, mk)
		case *ast.LabeledStmt:
			tmp := beforeReturns([]ast.Stmt{x.Stmt}, mk)
			if len(tmp) == 1 {
				x.Stmt = tmp[0]
			}
		}
		out = append(out, s)
	}
	return out
}

// mapHooks returns the statements to put before and after s.
func (r *rw) mapHooks(s ast.Stmt) (pre, post []ast.Stmt, ok bool) {
	switch x := s.(type) {
	case *ast.RangeStmt:
		if !simpleExpr(x.X) || hasLabeledBranch(x.Body) {
			return nil, nil, false
		}
		r.needVrt = true
		r.mapCnt++
		id := fmt.Sprintf("_vm%d", r.mapCnt)
		pre = []ast.Stmt{&ast.AssignStmt{Lhs: []ast.Expr{ast.NewIdent(id)}, Tok: token.DEFINE, Rhs: []ast.Expr{vrtCall("MapIterBegin", lazy(x.X))}}}
		pre = append(r.mapReads(s), pre...)
		end := func() ast.Stmt { return &ast.ExprStmt{X: vrtCall("MapIterEnd", ast.NewIdent(id))} }
		x.Body.List = beforeReturns(x.Body.List, end)
		x.Body.List = append([]ast.Stmt{&ast.ExprStmt{X: vrtCall("MapIterStep", ast.NewIdent(id))}}, x.Body.List...)
		post = []ast.Stmt{end()}
		return pre, post, true
	case *ast.AssignStmt:
		for _, l := range x.Lhs {
			if ix, isIx := l.(*ast.IndexExpr); isIx && simpleExpr(ix.X) {
				r.needVrt = true
				pre = append(pre, &ast.ExprStmt{X: vrtCall("MapWrite", lazy(ix.X))})
				post = append(post, &ast.ExprStmt{X: vrtCall("MapWriteEnd", lazy(ix.X))})
			}
		}
		pre = append(r.mapReads(s), pre...)
		return pre, post, len(pre) > 0
	case *ast.IncDecStmt:
		if ix, isIx := x.X.(*ast.IndexExpr); isIx && simpleExpr(ix.X) {
			r.needVrt = true
			return []ast.Stmt{&ast.ExprStmt{X: vrtCall("MapWrite", lazy(ix.X))}}, []ast.Stmt{&ast.ExprStmt{X: vrtCall("MapWriteEnd", lazy(ix.X))}}, true
		}
	case *ast.ExprStmt:
		if c, isCall := x.X.(*ast.CallExpr); isCall && len(c.Args) == 2 {
			if f, isId := c.Fun.(*ast.Ident); isId && f.Name == "delete" && simpleExpr(c.Args[0]) {
				r.needVrt = true
				return []ast.Stmt{&ast.ExprStmt{X: vrtCall("MapWrite", lazy(c.Args[0]))}}, []ast.Stmt{&ast.ExprStmt{X: vrtCall("MapWriteEnd", lazy(c.Args[0]))}}, true
			}
		}
		pre = r.mapReads(s)
		return pre, nil, len(pre) > 0
	case *ast.ReturnStmt, *ast.IfStmt, *ast.SwitchStmt, *ast.DeclStmt, *ast.SendStmt:
		pre = r.mapReads(s)
		return pre, nil, len(pre) > 0
	}
	return nil, nil, false
}

// mapReads returns vrt.MapRead(base) statements for every index expression base[k] read by the statement's own
// expressions (not its nested blocks or function literals), one per distinct base.
func (r *rw) mapReads(s ast.Stmt) []ast.Stmt {
	var exprs []ast.Node
	switch x := s.(type) {
	case *ast.ExprStmt:
		exprs = append(exprs, x.X)
	case *ast.AssignStmt:
		for _, e := range x.Rhs {
			exprs = append(exprs, e)
		}
		for _, l := range x.Lhs {
			if ix, ok := l.(*ast.IndexExpr); ok {
				exprs = append(exprs, ix.Index) // the key expression is read
				if x.Tok != token.ASSIGN && x.Tok != token.DEFINE {
					exprs = append(exprs, ix)
				}
			} else {
				exprs = append(exprs, l)
			}
		}
	case *ast.ReturnStmt:
		for _, e := range x.Results {
			exprs = append(exprs, e)
		}
	case *ast.IfStmt:
		if x.Init != nil {
			if as, ok := x.Init.(*ast.AssignStmt); ok {
				for _, e := range as.Rhs {
					exprs = append(exprs, e)
				}
			}
		}
		exprs = append(exprs, x.Cond)
	case *ast.SwitchStmt:
		if x.Tag != nil {
			exprs = append(exprs, x.Tag)
		}
	case *ast.DeclStmt:
		exprs = append(exprs, x.Decl)
	case *ast.SendStmt:
		exprs = append(exprs, x.Value)
	case *ast.RangeStmt:
		exprs = append(exprs, x.X)
	}
	seen := map[string]bool{}
	var out []ast.Stmt
	for _, n := range exprs {
		if n == nil {
			continue
		}
		ast.Inspect(n, func(n ast.Node) bool {
			switch y := n.(type) {
			case *ast.FuncLit:
				return false
			case *ast.IndexExpr:
				if simpleExpr(y.X) {
					var b bytes.Buffer
					_ = format.Node(&b, r.fset, y.X)
					if !seen[b.String()] {
						seen[b.String()] = true
						r.needVrt = true
						out = append(out, &ast.ExprStmt{X: vrtCall("MapRead", lazy(y.X))})
					}
				}
			}
			return true
		})
	}
	return out
}

func isSel(e ast.Expr) bool { _, ok := e.(*ast.SelectorExpr); return ok }
