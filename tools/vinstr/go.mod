module vinstr

go 1.21
